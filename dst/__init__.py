"""Deterministic simulation framework for indipy. Importing this package pins which indipy tree is used."""
import os
import sys

sys.dont_write_bytecode = True
REPO = os.environ.get("VERIF_REPO", "/repo")
if sys.path[0] != REPO:
    sys.path.insert(0, REPO)
