"""Run environment: imports indipy from the tree under test, owns one simulated world per
run (loop + net + pool + log) and restores process-global state afterwards."""
from __future__ import annotations

import gc
import hashlib
import json
import os
import re
import sys

sys.dont_write_bytecode = True
REPO = os.environ.get("VERIF_REPO", "/repo")
if REPO not in sys.path:
    sys.path.insert(0, REPO)

import asyncio  # noqa: E402

import indi  # noqa: E402
import indi.message  # noqa: E402

assert os.path.realpath(os.path.dirname(os.path.dirname(indi.__file__))) == os.path.realpath(REPO), (
    "indipy imported from %s, expected %s" % (indi.__file__, REPO)
)

from indi.transport.server import tcp as server_tcp  # noqa: E402

from .simloop import SimLoop, StepCapExceeded  # noqa: E402
from .simnet import NetConfig, SimNet  # noqa: E402
from .simpool import PoolConfig, SimPool  # noqa: E402
from . import watchdog  # noqa: E402

_ADDR = re.compile(r"0x[0-9a-fA-F]{6,}")
_real_now = indi.message.now


def norm(text: str) -> str:
    return _ADDR.sub("0xADDR", text)


class Sim:
    """One simulated world. Use as a context manager."""

    def __init__(self, seed, net: NetConfig = None, pool: PoolConfig = None, tie_shuffle=False,
                 max_steps=400_000):
        self.seed = seed
        self.loop = SimLoop(seed, timer_tie_shuffle=tie_shuffle)
        self.loop.max_steps = max_steps
        self.net = SimNet(self.loop, seed, net or NetConfig())
        self.pool = SimPool(self.loop, seed, pool or PoolConfig())
        self.log_entries = []
        self._seq = 0
        self.probes = {}
        self.violations = []  # (clause, detail)

    # -- logging / digest ----------------------------------------------------------
    def log(self, node, kind, detail=""):
        self._seq += 1
        if not isinstance(detail, str):
            detail = json.dumps(detail, sort_keys=True, default=repr)
        self.log_entries.append((round(self.loop.time(), 9), self._seq, node, kind, norm(detail)))

    def digest(self):
        h = hashlib.sha256()
        for e in self.log_entries:
            h.update(repr(e).encode("utf-8", "backslashreplace"))
        return h.hexdigest()

    def probe(self, name, n=1):
        self.probes[name] = self.probes.get(name, 0) + n

    def violate(self, clause, detail):
        self.log("oracle", "VIOLATION", f"{clause}: {detail}")
        self.violations.append((clause, norm(str(detail))))

    # -- context -------------------------------------------------------------------
    def __enter__(self):
        gc.collect()
        gc.disable()
        server_tcp.ConnectionHandler.connections.clear()
        loop = self.loop
        stamp = [0]

        def now():
            # virtual time plus a per-run serial number: every emitted message gets a unique, ordered id
            stamp[0] += 1
            return "T%.6f#%d" % (loop.time(), stamp[0])

        indi.message.now = now
        watchdog.reset()
        return self

    def __exit__(self, *exc):
        try:
            self.net.close_all()
            self.loop.shutdown()
        finally:
            indi.message.now = _real_now
            server_tcp.ConnectionHandler.connections.clear()
            gc.enable()
            gc.collect()
        return False

    # -- convenience -----------------------------------------------------------------
    def settle(self, until=None):
        return self.loop.drain(until=until)

    def run_for(self, dt):
        return self.loop.drain(until=self.loop.time() + dt)

    def gap(self, st):
        """A scenario gap: either virtual time (`dt`) or an exact number of loop iterations (`iters`), so that the next
        operation can land between two callbacks of one instant (a drain completing, a lock released, a task resumed)."""
        if st.get("iters"):
            return self.loop.step_iterations(st["iters"])
        return self.run_for(st["dt"])

    def do(self, fn, *a):
        if self.loop.is_running():
            return fn(*a)
        return self.loop.do(fn, *a)

    def spawn(self, coro):
        if self.loop.is_running():
            return self.loop.create_task(coro)
        return self.loop.do(self.loop.create_task, coro)


class RawPeer(asyncio.Protocol):
    """A scripted stub endpoint (raw client or one accepted connection of a stub server)."""

    def __init__(self, sim: Sim = None, name="raw"):
        self.sim = sim
        self.name = name
        self.transport = None
        self.received = bytearray()
        self.chunks = []
        self.timed = []  # (virtual arrival time, bytes)
        self.on_connect = None
        self.eof = False
        self.lost = None  # None | 'closed' | repr(exc)
        self.paused = False

    def connection_made(self, transport):
        self.transport = transport
        if self.on_connect is not None:
            self.on_connect(self)

    def data_received(self, data):
        self.received += data
        self.chunks.append(bytes(data))
        if self.sim is not None:
            self.timed.append((self.sim.loop.time(), bytes(data)))

    def eof_received(self):
        self.eof = True
        return True  # keep our write side open; the script decides when to close

    def connection_lost(self, exc):
        self.lost = "closed" if exc is None else repr(exc)

    def pause_writing(self):
        self.paused = True

    def resume_writing(self):
        self.paused = False

    def send(self, data: bytes):
        if isinstance(data, str):
            data = data.encode("latin1")
        self.transport.write(data)

    def close(self):
        self.transport.close()

    @property
    def text(self):
        return self.received.decode("latin1")


def to_jsonable(x):
    return json.loads(json.dumps(x, default=repr))
