"""Generator of driver *definition specs* (JSON-able) and builder of real Driver classes from them.

spec = {"name": str, "name_via": "class"|"ctor", "levels": [level, ...]}       (inheritance chain, base first)
level = {"groups": {attr: group}}                                              (attr may override a base level's attr)
group = {"name": str, "enabled": bool, "vectors": {attr: vector}}
vector = {"kind": Text|Number|Switch|Light|BLOB, "name", "label"|None, "state", "perm", "timeout", "enabled",
          "rule", "default_on": [names]|None, "elements": {attr: element}}
element = {"name", "label"|None, "default", "enabled", "format", "min", "max", "step"}
"""
from __future__ import annotations

import random

from indi.device import Driver, properties
from indi.device.values import BLOB as BlobValue

STATES = ["Idle", "Ok", "Busy", "Alert"]
PERMS = ["ro", "wo", "rw"]
RULES = ["OneOfMany", "AtMostOne", "AnyOfMany"]
PRINTF = ["%d", "%5d", "%.0f", "%.2f", "%8.3f", "%f", "%5.1f", "%010.3f"]
SEXA = ["%.3m", "%.5m", "%.6m", "%.8m", "%.9m", "%10.6m", "%8.3m", "%12.9m"]

_LABEL_CHARS = "abcdefghij KLMNOP0123"
_SPICE = ["&", "<", ">", '"', "'", "\xe9", "ł", "\U0001F319", "a&b", "<tag>", "x > y"]


def _label(rng, spicy):
    s = "".join(rng.choice(_LABEL_CHARS) for _ in range(rng.randint(1, 8))).strip() or "L"
    if spicy and rng.random() < 0.4:
        s = s + rng.choice(_SPICE)
    return s


SPICY_NAMES = [False]  # set per scenario by the property (names with blanks, markup and non-ASCII characters)


def _name(rng, prefix, used):
    while True:
        n = prefix + "".join(rng.choice("ABCDEFGHIJKLMNOPQRSTUVWXYZ_") for _ in range(rng.randint(1, 5)))
        if used and rng.random() < 0.15:
            # sibling names that contain one another (CONNECT / DISCONNECT, PARK / UNPARK, S1 / S10)
            base = rng.choice(sorted(used))
            n = rng.choice([base + "0", "UN" + base, base + "_X", base[:-1] if len(base) > 2 else base + "Q"])
        if SPICY_NAMES[0] and rng.random() < 0.3:
            n += rng.choice([" X", "&Y", "<Z", "\xe9", "'q", '"d', ">g", "\u0142", ".a-b"])
        if n not in used:
            used.add(n)
            return n


def gen_element(rng, kind, used, spicy, all_min_max=True):
    el = {"name": _name(rng, "E", used), "label": _label(rng, spicy) if rng.random() < 0.6 else None,
          "default": None, "enabled": rng.random() < 0.85}
    if kind == "Number":
        fmt = rng.choice(PRINTF + SEXA)
        el["format"] = fmt
        if fmt.endswith("m"):
            el["default"] = rng.choice([0.0, 1.5, 12.25, 359.99, 23.5, 0.75])
        elif fmt.endswith("d"):
            el["default"] = rng.choice([0, 1, 42, -7, 1000])
        else:
            el["default"] = rng.choice([0.0, 1.5, -2.25, 100.0, 3.14159, 1e6])
        if all_min_max or rng.random() < 0.7:
            el["min"], el["max"] = rng.choice([(0, 100), (-10, 10), (0, 0), (-1000000, 1000000)])
        else:
            # no limits, or only one of the two declared
            el["min"], el["max"] = rng.choice([(None, None), (None, None), (None, 360), (-90, None), (5, None), (None, -5)])
        el["step"] = rng.choice([0, 1, 0.5])
    elif kind == "Text":
        el["default"] = rng.choice([None, "", "lorem", _label(rng, spicy), "a b  c", "line1\nline2"])
    elif kind == "Switch":
        el["default"] = None  # Off unless default_on
    elif kind == "Light":
        el["default"] = rng.choice([None] + STATES)
    else:
        el["default"] = None
    return el


def gen_vector(rng, kind, used_v, spicy, all_min_max=True, max_elements=5):
    used_e = set()
    n = rng.randint(1, max_elements)
    els = {}
    for i in range(n):
        e = gen_element(rng, kind, used_e, spicy, all_min_max)
        els[f"e{i}"] = e
    if not any(e["enabled"] for e in els.values()):
        els["e0"]["enabled"] = True
    v = {"kind": kind, "name": _name(rng, "V", used_v), "label": _label(rng, spicy) if rng.random() < 0.6 else None,
         "state": rng.choice(STATES), "perm": rng.choice(PERMS), "timeout": rng.choice([0, 0, 5, 60]),
         "enabled": rng.random() < 0.8, "elements": els, "rule": None, "default_on": None}
    if kind == "Switch":
        v["rule"] = rng.choice(RULES)
        names = [e["name"] for e in els.values()]
        k = rng.choice([0, 1, 1, 2])
        if v["rule"] == "OneOfMany":
            k = 1 if rng.random() < 0.8 else k
        if v["rule"] == "AtMostOne" and k > 1:
            k = 1
        v["default_on"] = rng.sample(names, min(k, len(names)))
    return v


def gen_group(rng, used_g, used_v, kinds, spicy, all_min_max=True, max_vectors=3, max_elements=5):
    vs = {}
    for i in range(rng.randint(1, max_vectors)):
        vs[f"v{i}"] = gen_vector(rng, rng.choice(kinds), used_v, spicy, all_min_max, max_elements)
    return {"name": _name(rng, "G", used_g), "enabled": rng.random() < 0.8, "vectors": vs}


def gen_device(rng, name, kinds=("Text", "Number", "Switch", "Light", "BLOB"), spicy=True, max_depth=3, all_min_max=True,
               max_groups=3, max_vectors=3, max_elements=5):
    used_g, used_v = set(), set()
    depth = rng.randint(1, max_depth)
    levels = []
    attr_i = 0
    for lvl in range(depth):
        groups = {}
        ng = rng.randint(1, max(1, max_groups - lvl)) if lvl == 0 else rng.randint(0, 2)
        for _ in range(ng):
            attr = f"g{attr_i}"
            attr_i += 1
            groups[attr] = gen_group(rng, used_g, used_v, list(kinds), spicy, all_min_max, max_vectors, max_elements)
        if lvl > 0 and levels and rng.random() < 0.3:
            # override a group attribute contributed by a base level
            base_attrs = [a for l in levels for a in l["groups"]]
            if base_attrs:
                attr = rng.choice(base_attrs)
                groups[attr] = gen_group(rng, used_g, used_v, list(kinds), spicy, all_min_max, max_vectors, max_elements)
        levels.append({"groups": groups})
    return {"name": name, "name_via": rng.choice(["class", "ctor"]), "levels": levels}


def effective_groups(spec):
    """attr -> group spec after inheritance (later levels override earlier ones) - what INDI users expect."""
    out = {}
    for lvl in spec["levels"]:
        for attr, g in lvl["groups"].items():
            out[attr] = g
    return out


# ---------------------------------------------------------------------------------------
_ECLS = {"Text": properties.Text, "Number": properties.Number, "Switch": properties.Switch, "Light": properties.Light,
         "BLOB": properties.BLOB}
_VCLS = {"Text": properties.TextVector, "Number": properties.NumberVector, "Switch": properties.SwitchVector,
         "Light": properties.LightVector, "BLOB": properties.BLOBVector}


def _build_element(kind, e):
    kw = {"label": e["label"], "enabled": e["enabled"]}
    if e["default"] is not None:
        kw["default"] = e["default"]
    if kind == "Number":
        kw.update(format=e["format"], min=e["min"], max=e["max"], step=e["step"])
    return _ECLS[kind](e["name"], **kw)


def _build_vector(v):
    els = {attr: _build_element(v["kind"], e) for attr, e in v["elements"].items()}
    kw = {"label": v["label"], "state": v["state"], "enabled": v["enabled"], "elements": els}
    if v["kind"] != "Light":
        kw["perm"] = v["perm"]
        kw["timeout"] = v["timeout"]
    if v["kind"] == "Switch":
        kw["rule"] = v["rule"]
        if v["default_on"]:
            # one default is given as a plain string (the documented short form), several as a tuple
            kw["default_on"] = v["default_on"][0] if len(v["default_on"]) == 1 else tuple(v["default_on"])
    return _VCLS[v["kind"]](v["name"], **kw)


def _build_group(g):
    return properties.Group(g["name"], enabled=g["enabled"], vectors={a: _build_vector(v) for a, v in g["vectors"].items()})


def build_class(spec, extra_attrs=None, base_cls=None, skip_levels=0):
    """Returns a fresh Driver subclass chain for this spec (definitions are never shared between runs).
    With base_cls, the first `skip_levels` levels are taken from that already built class (a driver family)."""
    base = base_cls or Driver
    cls = base_cls
    for i, lvl in enumerate(spec["levels"]):
        if i < skip_levels:
            continue
        dct = {a: _build_group(g) for a, g in lvl["groups"].items()}
        last = i == len(spec["levels"]) - 1
        if last and spec["name_via"] == "class":
            dct["name"] = spec["name"]
        if last and extra_attrs:
            dct.update(extra_attrs(dct))
        cls = type(f"Gen_{spec['name']}_{i}", (base,), dct)
        base = cls
    return cls


def instantiate(spec, router, extra_attrs=None, cls=None):
    cls = cls or build_class(spec, extra_attrs)
    if spec["name_via"] == "class":
        return cls(router=router)
    return cls(name=spec["name"], router=router)


# ---------------------------------------------------------------------------------------
def default_value(kind, e, v):
    if kind == "Switch":
        return "On" if (v.get("default_on") and e["name"] in v["default_on"]) or e.get("default") == "On" else "Off"
    if e["default"] is not None:
        return e["default"]
    return {"Number": 0.0, "Text": "", "Light": "Ok", "BLOB": None}[kind]


def serialized_len_estimate(v):
    n = 200 + len(v["name"]) + len(v.get("label") or "") * 6
    for e in v["elements"].values():
        n += 110 + len(e["name"]) * 2 + len(e.get("label") or "") * 6 + len(str(e.get("default") or "")) * 6
    return n


def clone_as_second_instance(spec, new_name):
    """A second device that is another *instance of the same Driver class* (two cameras of one model):
    both get their names through the constructor, the class itself carries no name attribute."""
    import copy
    spec["name_via"] = "ctor"
    twin = copy.deepcopy(spec)
    twin["name"] = new_name
    twin["class_of"] = spec["name"]
    return twin


def derive_family_member(rng, spec, new_name, kinds, spicy=False):
    """A second device whose class is a SUBCLASS of the first device's class (a driver family: generic camera and a model
    that adds or overrides groups). Both are named through the constructor."""
    import copy
    spec["name_via"] = "ctor"
    used_g = {g["name"] for l in spec["levels"] for g in l["groups"].values()}
    used_v = {v["name"] for l in spec["levels"] for g in l["groups"].values() for v in g["vectors"].values()}
    child = copy.deepcopy(spec)
    child["name"] = new_name
    child["subclass_of"] = spec["name"]
    child["inherited_levels"] = len(spec["levels"])
    groups = {}
    n_attr = sum(len(l["groups"]) for l in spec["levels"])
    groups[f"g{n_attr}"] = gen_group(rng, used_g, used_v, list(kinds), spicy)
    if rng.random() < 0.4:
        base_attrs = [a for l in spec["levels"] for a in l["groups"]]
        groups[rng.choice(base_attrs)] = gen_group(rng, used_g, used_v, list(kinds), spicy)
    child["levels"].append({"groups": groups})
    return child
