"""Junk and damage generators for C11 (text over the Latin-1 alphabet)."""
from __future__ import annotations

import random

from .messages import TOP_TAGS

FRAGMENTS = [
    "<foo>", "</foo>", "<foo/>", "<bar a='1'>", "</bar>", "<x y=\"z\">", "<", ">", "&", "&amp;", "&#x;", "\"", "'",
    "<!-- a comment -->", "<!--", "-->", "<![CDATA[ x > y ]]>", "<![CDATA[", "]]>",
    "<?xml version=\"1.0\"?>", "<?xml version='1.0' encoding='ISO-8859-1'?>", "<?pi", "?>",
    "<!DOCTYPE indi>", "<!DOCTYPE x [<!ENTITY e 'v'>]>", "\x00", "\x00\x00", "\r\n", "\n", "\t", " ",
    "=", "/>", "</", "<a", "a=", "text", "0123456789", "\xff\xfe", "\xe9", "<\xe9>", "defText", "Vector", "one", "</>",
    "<<", ">>", "<>", "< >", "<1>", "<-", "<a b>", "<a b=>", "<a b='>", "<a b=\">",
    # well-formed elements of the INDI vocabulary that are no messages of this library's receive vocabulary
    "<message device='d' message='hi'/>", "<message device=\"d\">text</message>", "<message/>", "<oneText name='x'>v</oneText>",
    "<defVector device='d' name='n'/>", "<indiMessage/>", "<vector/>",
]

IMITATING = [
    "<defTextVector>", "<defTextVector", "</defTextVector>", "<getProperties", "<getProperties>", "</getProperties>",
    "<oneLight>", "<oneLight name='x'>", "</oneLight>", "<setNumberVector device='d'", "<delProperty", "<enableBLOB>Never",
    "<!-- <getProperties version='1'/> -->", "<newTextVector device='d' name='n'>", "<pingRequest", "<pingReply uid=",
    "<setLightVector device='d' name='n' state='Ok'>", "</setLightVector>", "<defSwitchVectorX>", "<getPropertiesfoo",
]


def rand_junk(rng: random.Random, imitating=False, maxparts=8, long_p=0.1):
    parts = []
    n = rng.randint(1, maxparts)
    for _ in range(n):
        r = rng.random()
        if imitating and r < 0.35:
            parts.append(rng.choice(IMITATING))
        elif r < 0.8:
            parts.append(rng.choice(FRAGMENTS))
        else:
            k = rng.randint(1, 12)
            parts.append("".join(chr(rng.randrange(256)) for _ in range(k)))
    if rng.random() < long_p:
        parts.append(rng.choice(["a", ">", "<", " ", "<a>", "x>"]) * rng.choice([50, 300, 300, 2500]))
    return "".join(parts)


def is_nonimitating(stream: str, message_spans) -> bool:
    """True iff every occurrence of '<'+registered tag name in the stream starts inside a valid
    message span (i.e. the junk contributes none and completes none)."""
    for tag in TOP_TAGS:
        needle = "<" + tag
        i = stream.find(needle)
        while i >= 0:
            if not any(s <= i < e for s, e in message_spans):
                return False
            i = stream.find(needle, i + 1)
    return True


def truncate(text: str, at: int) -> str:
    return text[:at]


_NUM_CHILD = None


def corrupt(text: str, rng: random.Random, force=None):
    """Returns (new_text, op). Operates on one spelled element (no declaration)."""
    global _NUM_CHILD
    op = force or rng.choice(["flip", "del_gt", "del_lt", "dup_attr", "unknown_child", "bad_vocab", "del_quote", "del_slash", "insert", "bad_number"])
    if op == "bad_number":
        # a number whose text stops being a number at its very end: many digits, then a unit / a second point / a stray character
        import re
        if _NUM_CHILD is None:
            _NUM_CHILD = re.compile(r"(<(?:one|def)Number\b[^>]*[^/>]>)([^<]*)(</)")
        m = _NUM_CHILD.search(text)
        if m:
            bad = rng.choice(["3141592653589793238462643383279502884197169399375105820974944#", "1" * 48 + "e5",
                              "12345678901234567890123456789012345678901234567890.6.7", "0:" + "9" * 60 + "x", "9" * 40 + " arcsec"])
            return text[:m.start(2)] + bad + text[m.end(2):], op
        op = "insert"
    if op == "flip":
        i = rng.randrange(len(text))
        return text[:i] + chr(rng.randrange(256)) + text[i + 1:], op
    if op in ("del_gt", "del_lt", "del_quote", "del_slash"):
        ch = {"del_gt": ">", "del_lt": "<", "del_quote": '"', "del_slash": "/"}[op]
        idx = [i for i, c in enumerate(text) if c == ch]
        if not idx:
            return text[:-1], "trunc1"
        i = rng.choice(idx)
        return text[:i] + text[i + 1:], op
    if op == "dup_attr":
        i = text.find(" ")
        j = text.find("=", i)
        if i < 0 or j < 0:
            return text[:-1], "trunc1"
        name = text[i + 1:j]
        return text[:i] + f' {name}="dup"' + text[i:], op
    if op == "unknown_child":
        i = text.find(">")
        if text[i - 1] == "/":
            return text[:i - 1] + "><bogus/></" + text[1:text.find(" ") if " " in text[:i] else i - 1] + ">", op
        return text[:i + 1] + "<bogus/>" + text[i + 1:], op
    if op == "bad_vocab":
        for word in ("Ok", "Idle", "Busy", "Alert", "On", "Off", "rw", "ro", "wo", "Never", "Also", "Only"):
            k = text.find(word)
            if k >= 0:
                return text[:k] + "Wrong" + text[k + len(word):], op
        return text[:-1], "trunc1"
    i = rng.randrange(len(text) + 1)
    return text[:i] + rng.choice(FRAGMENTS) + text[i:], "insert"
