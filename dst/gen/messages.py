"""Generator of INDI message *specs* from the full grammar the library registers.

A spec is a plain JSON-able structure, independent of the library:
    {"tag": str, "attrs": [[k, v], ...], "text": str|None, "children": [spec, ...]}
`attrs` is ordered (spelling order); values are logical (unescaped) strings.
"""
from __future__ import annotations

import random

STATES = ["Idle", "Ok", "Busy", "Alert"]
PERMS = ["ro", "wo", "rw"]
RULES = ["OneOfMany", "AtMostOne", "AnyOfMany"]
SWITCH = ["On", "Off"]
BLOBEN = ["Never", "Also", "Only"]

KINDS = ["Text", "Number", "Switch", "Light", "BLOB"]

# every tag the library registers as a top-level message
TOP_TAGS = (
    ["getProperties", "enableBLOB", "delProperty", "pingRequest", "pingReply", "oneLight"]
    + [f"def{k}Vector" for k in KINDS]
    + [f"set{k}Vector" for k in KINDS]
    + [f"new{k}Vector" for k in ("Text", "Number", "Switch", "BLOB")]
)

_ASCII_SAFE = "abcdefghijklmnopqrstuvwxyzABCDEFGHIJKLMNOPQRSTUVWXYZ0123456789_-. "
_MARKUP = "<>&\"'"
_LATIN1 = "\xe9\xfc\xdf\xf1\xa9\xb0\xff\xa0"
_BMP = "łα中€"
_ASTRAL = "\U0001F319\U0001F52D"


def rand_text(rng: random.Random, charset="latin1", maxlen=12, allow_empty=True, markup=True):
    """A text value that survives strip() unchanged (no leading/trailing whitespace, no CR)."""
    if allow_empty and rng.random() < 0.1:
        return ""
    n = rng.randint(1, maxlen)
    pool = _ASCII_SAFE
    extra = ""
    if markup:
        extra += _MARKUP
    if charset in ("latin1", "bmp", "all"):
        extra += _LATIN1
    if charset in ("bmp", "all"):
        extra += _BMP
    if charset == "all":
        extra += _ASTRAL
    s = []
    for _ in range(n):
        if extra and rng.random() < 0.3:
            s.append(rng.choice(extra))
        else:
            s.append(rng.choice(pool))
    t = "".join(s).strip()
    if rng.random() < 0.15 and len(t) > 2:
        # inner newline / tab is allowed by XML text (not in attributes: normalised there)
        pass
    return t


def rand_name(rng, maxlen=8):
    n = rng.randint(1, maxlen)
    return "".join(rng.choice("ABCDEFGHIJKLMNOPQRSTUVWXYZ_0123456789") for _ in range(n))


def rand_number_text(rng):
    form = rng.randrange(8)
    sign = "-" if rng.random() < 0.3 else ""
    d = str(rng.randint(0, 999))
    if form == 0:
        return sign + d
    if form == 1:
        return f"{sign}{d}.{rng.randint(0, 9999)}"
    if form == 2:
        return f"{sign}{d}."
    if form == 3:
        return f"{sign}.{rng.randint(0, 999)}"
    mm = "%02d" % rng.randint(0, 59)
    ss = "%02d" % rng.randint(0, 59)
    if form == 4:
        return f"{sign}{d}:{mm}"
    if form == 5:
        return f"{sign}{d}:{mm}.{rng.randint(0, 99)}"
    if form == 6:
        return f"{sign}{d}:{mm}:{ss}"
    return f"{sign}{d}:{mm}:{ss}.{rng.randint(0, 99)}"


_B64 = "ABCDEFGHIJKLMNOPQRSTUVWXYZabcdefghijklmnopqrstuvwxyz0123456789+/"


def rand_b64(rng, nbytes):
    import base64

    return base64.b64encode(bytes(rng.randrange(256) for _ in range(nbytes))).decode("ascii")


class MsgGen:
    def __init__(self, rng: random.Random, charset="latin1", max_children=4, text_len=12, attr_markup=True):
        self.rng = rng
        self.charset = charset
        self.max_children = max_children
        self.text_len = text_len
        self.attr_markup = attr_markup

    def _opt(self, attrs, key, val, p=0.5):
        if self.rng.random() < p:
            attrs.append([key, val])

    def _t(self, allow_empty=True):
        return rand_text(self.rng, self.charset, self.text_len, allow_empty)

    def _attr_t(self):
        # attribute values: no newline/tab (XML normalises them), otherwise anything
        return rand_text(self.rng, self.charset, self.text_len, allow_empty=False, markup=self.attr_markup) or "x"

    def child(self, tag, kind):
        r = self.rng
        attrs = [["name", rand_name(r)]]
        text = None
        if tag.startswith("def"):
            self._opt(attrs, "label", self._attr_t())
            if kind == "Number":
                attrs += [["format", r.choice(["%d", "%.2f", "%8.3f", "%g", "%.3m", "%10.6m", "%.9m"])],
                          ["min", str(r.randint(-10, 0))], ["max", str(r.randint(1, 100))],
                          ["step", r.choice(["0", "1", "0.5"])]]
                text = rand_number_text(r) if r.random() < 0.9 else None
            elif kind == "Switch":
                text = r.choice(SWITCH)
            elif kind == "Light":
                text = r.choice(STATES)
            elif kind == "Text":
                text = self._t() if r.random() < 0.9 else None
            else:  # BLOB
                text = None
        else:  # one*
            if kind == "Number":
                text = rand_number_text(r)
            elif kind == "Switch":
                text = r.choice(SWITCH)
            elif kind == "Light":
                text = r.choice(STATES)
            elif kind == "Text":
                text = self._t() if r.random() < 0.9 else None
            else:
                n = r.choice((0, 1, 2, 3, 10, 30))
                attrs += [["size", str(n)], ["format", r.choice([".fits", ".jpg", "", ".x" + rand_name(r, 3)])]]
                text = rand_b64(r, n) if n else None
        if text == "":
            text = None
        return {"tag": tag, "attrs": attrs, "text": text, "children": []}

    def message(self, tag=None, origin=None):
        """origin: None | 'client' | 'device' restricts kinds by direction."""
        r = self.rng
        if tag is None:
            tags = TOP_TAGS
            if origin == "client":
                tags = [t for t in TOP_TAGS if t.startswith("new") or t in ("getProperties", "enableBLOB", "pingReply")]
            elif origin == "device":
                tags = [t for t in TOP_TAGS if t.startswith(("def", "set")) or t in ("delProperty", "pingRequest", "getProperties")]
            tag = r.choice(tags)
        attrs = []
        text = None
        children = []
        if tag == "getProperties":
            attrs.append(["version", r.choice(["1.7", "1", "2.0"])])
            self._opt(attrs, "device", rand_name(r))
            self._opt(attrs, "name", rand_name(r))
        elif tag == "enableBLOB":
            attrs.append(["device", rand_name(r)])
            self._opt(attrs, "name", rand_name(r))
            text = r.choice(BLOBEN)
        elif tag == "delProperty":
            attrs.append(["device", rand_name(r)])
            self._opt(attrs, "name", rand_name(r))
            self._opt(attrs, "timestamp", "2020-01-01T00:00:00")
            self._opt(attrs, "message", self._attr_t())
        elif tag in ("pingRequest", "pingReply"):
            attrs.append(["uid", rand_name(r)])
        elif tag == "oneLight":
            attrs.append(["name", rand_name(r)])
            text = r.choice(STATES)
        else:
            pre, kind = tag[:3], tag[3:-6]
            attrs += [["device", rand_name(r)], ["name", rand_name(r)]]
            if pre in ("def", "set"):
                attrs.append(["state", r.choice(STATES)])
            if pre == "def":
                if kind != "Light":
                    attrs.append(["perm", r.choice(PERMS)])
                    self._opt(attrs, "timeout", str(r.randint(0, 60)))
                if kind == "Switch":
                    attrs.append(["rule", r.choice(RULES)])
                self._opt(attrs, "label", self._attr_t())
                self._opt(attrs, "group", self._attr_t())
            if pre == "set":
                self._opt(attrs, "timeout", str(r.randint(0, 60)))
            self._opt(attrs, "timestamp", "2020-01-01T00:00:00")
            if pre in ("def", "set"):
                self._opt(attrs, "message", self._attr_t(), 0.3)
            n = r.randint(0, self.max_children)
            ctag = ("def" if pre == "def" else "one") + kind
            children = [self.child(ctag, kind) for _ in range(n)]
        r.shuffle(attrs)
        return {"tag": tag, "attrs": attrs, "text": text, "children": children}
