"""Spelling writer: renders a message spec as XML text in any of its equivalent spellings.
Independent of the library and of ElementTree's serialiser."""
from __future__ import annotations

import random

DECLS = [None, '<?xml version="1.0"?>', "<?xml version='1.0' encoding='UTF-8'?>", '<?xml version="1.0" encoding="utf-8" standalone="yes"?>']


def default_style():
    return {"decl": 1, "indent": False, "quote": '"', "empty": "self", "raw_gt": False, "charref": "ascii",
            "trail": "\n", "pad": False, "tagspace": False, "attrsep": " ", "cdata": False, "comments": False, "seed": 0}


def library_style():
    """The spelling the library itself emits."""
    return default_style()


def rand_style(rng: random.Random):
    return {
        "decl": rng.randrange(len(DECLS)),
        "indent": rng.random() < 0.5,
        "quote": rng.choice(['"', "'", "mix"]),
        "empty": rng.choice(["self", "pair", "mix"]),
        "raw_gt": rng.random() < 0.5,
        "charref": rng.choice(["raw", "ascii", "hex", "mix"]),
        "trail": rng.choice(["\n", "", "\n\n", " ", "\r\n"]),
        "pad": rng.random() < 0.3,
        "tagspace": rng.random() < 0.3,
        # white space XML allows between the element name and its attributes (attribute-per-line pretty printers, tabs)
        "attrsep": rng.choice([" ", " ", " ", "\n", "\t", "\r\n", "\n    ", "mix"]),
        # text spelled as CDATA sections; comments between the children of a message (both are XML a pretty printer, a
        # templating engine or a person may produce; neither is content)
        "cdata": rng.random() < 0.2,
        "comments": rng.random() < 0.2,
        "seed": rng.randrange(1 << 30),
    }


class Speller:
    def __init__(self, style):
        self.s = style
        self.rng = random.Random(style.get("seed", 0))

    def _esc_char(self, ch):
        mode = self.s["charref"]
        if ord(ch) < 128:
            return ch
        if mode == "mix":
            mode = self.rng.choice(["raw", "ascii", "hex"])
        if mode == "raw":
            return ch
        if mode == "hex":
            return "&#x%X;" % ord(ch)
        return "&#%d;" % ord(ch)

    COMMENTS = ["<!---->", "<!-- note -->", "<!-- a > b -->", "<!-- <x y='1'> -->", "<!--\n  two lines\n-->"]

    def _text(self, t):
        if self.s.get("cdata") and t and "]]>" not in t and all(ord(c) < 256 and c != "\r" for c in t) and self.rng.random() < 0.7:
            if len(t) >= 2 and self.rng.random() < 0.3:
                k = self.rng.randrange(1, len(t))
                return f"<![CDATA[{t[:k]}]]><![CDATA[{t[k:]}]]>"
            return f"<![CDATA[{t}]]>"
        out = []
        for ch in t:
            if ch == "&":
                out.append("&amp;")
            elif ch == "<":
                out.append("&lt;")
            elif ch == ">":
                out.append(">" if self.s["raw_gt"] else "&gt;")
            elif ch == '"' or ch == "'":
                out.append(ch)
            else:
                out.append(self._esc_char(ch))
        return "".join(out)

    def _attr(self, v):
        q = self.s["quote"]
        if q == "mix":
            q = self.rng.choice(['"', "'"])
        out = []
        for ch in v:
            if ch == "&":
                out.append("&amp;")
            elif ch == "<":
                out.append("&lt;")
            elif ch == ">":
                out.append(">" if self.s["raw_gt"] else "&gt;")
            elif ch == q:
                out.append("&quot;" if q == '"' else "&apos;")
            elif ch in "\n\t\r":
                out.append("&#%d;" % ord(ch))
            else:
                out.append(self._esc_char(ch))
        return q + "".join(out) + q

    def _open(self, spec):
        sp = "  " if self.s["tagspace"] and self.rng.random() < 0.5 else " "
        sep = self.s.get("attrsep", " ")
        out = [spec["tag"]]
        for k, v in spec["attrs"]:
            s1 = sep
            if s1 == "mix":
                s1 = self.rng.choice([" ", "\n", "\t", "\n  "])
            out.append((sp if s1 == " " else s1) + f"{k}={self._attr(v)}")
        return "<" + "".join(out)

    def element(self, spec, depth=0):
        ind = self.s["indent"]
        nl = "\n" if ind else ""
        pad = ("  " * depth) if ind else ""
        head = self._open(spec)
        tail_sp = " " if self.s["tagspace"] and self.rng.random() < 0.5 else ""
        text = spec.get("text")
        kids = spec.get("children") or []
        if text in (None, "") and not kids:
            mode = self.s["empty"]
            if mode == "mix":
                mode = self.rng.choice(["self", "pair"])
            if mode == "self":
                return f"{pad}{head}{tail_sp}/>"
            return f"{pad}{head}{tail_sp}></{spec['tag']}{tail_sp}>"
        out = [f"{pad}{head}{tail_sp}>"]
        if kids:
            cm = self.s.get("comments")
            for k in kids:
                if cm and self.rng.random() < 0.4:
                    out.append(nl + self.rng.choice(self.COMMENTS))
                out.append(nl + self.element(k, depth + 1))
            if cm and self.rng.random() < 0.3:
                out.append(nl + self.rng.choice(self.COMMENTS))
            out.append(nl + pad)
        else:
            t = self._text(text)
            if self.s["pad"]:
                t = self.rng.choice([" ", "\n", "\n  ", "\t"]) + t + self.rng.choice([" ", "\n", "\n  "])
            out.append(t)
        out.append(f"</{spec['tag']}{tail_sp}>")
        return "".join(out)

    def message(self, spec):
        d = DECLS[self.s["decl"]]
        head = (d + "\n") if d else ""
        return head + self.element(spec) + self.s["trail"]


def spell(spec, style=None):
    return Speller(style or default_style()).message(spec)
