"""Value generators for driver-side assignments and client-side writes, and an independent
INDI-convention reader of number texts (sign applies to the whole sexagesimal magnitude)."""
from __future__ import annotations

import random
import re

STATES = ["Idle", "Ok", "Busy", "Alert"]
_TXT = "abcdefghijklmnopqrstuvwxyzABCDEFGHIJKLMNOPQRSTUVWXYZ0123456789_-. "
_SPICE = ["&", "<", ">", '"', "'", "\xe9", "\xfc", "ł", "中", "\U0001F319", "]]>", "&amp;", "a\nb", "x\ty"]


def rand_text(rng, maxlen=16, allow_empty=True):
    if allow_empty and rng.random() < 0.08:
        return ""
    s = []
    for _ in range(rng.randint(1, maxlen)):
        s.append(rng.choice(_SPICE) if rng.random() < 0.2 else rng.choice(_TXT))
    t = "".join(s).strip()
    return t or "t"


def sexa_text(rng, fmt, negative_ok=True):
    """A number text in the format's own sexagesimal shape. -> (text, value under INDI conventions)"""
    frac = int(re.match(r"^%(\d*)\.(\d+)m$", fmt).group(2))
    neg = negative_ok and rng.random() < 0.3
    d = rng.choice([0, 0, 1, 7, 12, 23, 89, 179, 359])
    m = rng.randint(0, 59)
    s = rng.randint(0, 59)
    if frac == 3:
        txt, val = f"{d}:{m:02d}", d + m / 60
    elif frac == 5:
        t = rng.randint(0, 9)
        txt, val = f"{d}:{m:02d}.{t}", d + (m + t / 10) / 60
    elif frac == 6:
        txt, val = f"{d}:{m:02d}:{s:02d}", d + m / 60 + s / 3600
    elif frac == 8:
        t = rng.randint(0, 9)
        txt, val = f"{d}:{m:02d}:{s:02d}.{t}", d + m / 60 + (s + t / 10) / 3600
    else:
        t = rng.randint(0, 99)
        txt, val = f"{d}:{m:02d}:{s:02d}.{t:02d}", d + m / 60 + (s + t / 100) / 3600
    if neg and val != 0:
        return "-" + txt, -val
    if neg:
        return txt, val
    return txt, val


def sexa_resolution(fmt):
    frac = int(re.match(r"^%(\d*)\.(\d+)m$", fmt).group(2))
    return {3: 1 / 60, 5: 1 / 600, 6: 1 / 3600, 8: 1 / 36000, 9: 1 / 360000}[frac]


def is_sexa(fmt):
    return bool(re.match(r"^%(\d*)\.(\d+)m$", fmt))


def printf_text(rng, fmt):
    """A plain number text suitable for a printf-style format. -> (text, value)"""
    if fmt.endswith("d") and rng.random() < 0.1:
        # an integer that no float holds exactly (counters, 64-bit identifiers): an integer format carries it digit for digit
        v = rng.choice([2 ** 53 + 1, -(2 ** 53) - 1, 2 ** 63 - 1, 12345678901234567891])
        return str(v), v
    if fmt.endswith("d") or rng.random() < 0.3:
        v = rng.choice([0, 1, -1, 7, 42, -300, 1000, 65535])
        return str(v), float(v)
    if rng.random() < 0.12:
        # signed zeros: equal as numbers, different as rendered text
        return rng.choice([("-0.0", -0.0), ("0.0", 0.0), ("-0", -0.0)])
    v = rng.choice([0.5, 1.25, -2.75, 3.14159, 100.001, -0.001, 12345.678])
    return repr(v), v


def client_number(rng, fmt):
    return sexa_text(rng, fmt) if is_sexa(fmt) else printf_text(rng, fmt)


def driver_number(rng, fmt):
    if is_sexa(fmt):
        if rng.random() < 0.1:
            # just below a full minute / degree: the rendered text rounds up to the next unit (shown as :60 or as the next one)
            return rng.choice([20.9999, -20.9999, 1.99999999, 359.99999, -0.999999])
        return rng.choice([0.0, -0.0, 0.5, 1.25, 12.5, 23.999, 100.75, 359.5, 45.0, -0.5, -0.25, -12.5, -89.75])
    if fmt.endswith("d"):
        return rng.choice([0, 1, -5, 42, 1000, 7])
    return rng.choice([0.0, -0.0, 0.0, -0.0, 1.5, -2.25, 3.14159, 1e3, 0.001, 99.99, -0.5])


def driver_value(rng, kind, espec):
    if kind == "Number":
        return driver_number(rng, espec["format"])
    if kind == "Text":
        return rand_text(rng)
    if kind == "Switch":
        return rng.choice(["On", "Off"])
    if kind == "Light":
        return rng.choice(STATES)
    n = rng.choice([0, 1, 3, 10, 50])
    return {"blob_hex": bytes(rng.randrange(256) for _ in range(n)).hex(), "format": rng.choice([".fits", ".jpg", ".bin", ""])}


def indi_number_value(text):
    """Value denoted by a number text under INDI conventions (independent of the library)."""
    t = text.strip()
    neg = t.startswith("-")
    if neg:
        t = t[1:]
    parts = re.split(r"[:; ]", t)
    val = 0.0
    for i, p in enumerate(parts):
        val += float(p) / (60 ** i)
    return -val if neg else val


def render_tolerance(fmt):
    """Half the resolution of what a format can show (independent of the library's renderer)."""
    if is_sexa(fmt):
        return sexa_resolution(fmt) / 2
    m = re.match(r"^%[-+ 0#]*\d*(?:\.(\d+))?([dif])$", fmt)
    if not m:
        return None
    if m.group(2) in "di":
        return 0.5
    prec = int(m.group(1)) if m.group(1) is not None else 6
    return 0.5 * 10 ** (-prec)


def denotes(text, value, fmt):
    """Does the rendered text denote `value` (INDI conventions: the sign applies to the whole magnitude) within the format's resolution?
    -> True / False / None (cannot judge)."""
    tol = render_tolerance(fmt)
    if tol is None or text is None or value is None:
        return None
    try:
        got = indi_number_value(text)
    except Exception:
        return False
    try:
        return abs(got - float(value)) <= tol * 1.0000001 + 1e-12 * max(1.0, abs(float(value)))
    except OverflowError:
        return None  # integers beyond float range: not judged here
