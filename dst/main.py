"""Entry point behind ./check  (a plain script, so no module is imported twice)."""
import os
import sys

ROOT = os.path.dirname(os.path.dirname(os.path.abspath(__file__)))
if ROOT not in sys.path:
    sys.path.insert(0, ROOT)

if os.environ.get("PYTHONHASHSEED") is None:
    os.environ["PYTHONHASHSEED"] = "0"
    os.execv(sys.executable, [sys.executable, "-B"] + sys.argv)

import logging  # noqa: E402

logging.disable(logging.CRITICAL)
import warnings  # noqa: E402

warnings.simplefilter("ignore")


def main():
    if len(sys.argv) < 2:
        print("usage: check <ID|selftest|all> [--tier quick|thorough] [--seed N] [--replay FILE] [--jobs N] [--budget S]")
        return 2
    what = sys.argv[1]
    rest = sys.argv[2:]
    if what == "selftest":
        from dst import selftest
        return selftest.main(rest)
    from dst import runner
    if what == "all":
        import json
        with open(os.path.join(ROOT, "MANIFEST.json")) as f:
            ids = [c["property_id"] for c in json.load(f)["checks"]]
        rc = 0
        for pid in ids:
            r = runner.main_check(pid, rest)
            rc = max(rc, r)
        return rc
    return runner.main_check(what.upper(), rest)


if __name__ == "__main__":
    try:
        rc = main()
    except SystemExit:
        raise
    except BaseException:
        import traceback
        traceback.print_exc()
        print("HARNESS-ERROR uncaught exception in the check driver")
        rc = 2
    sys.exit(rc)
