"""Shared pieces for C15 / C16: generator of foreign-server streams over a small universe and the
world that feeds them to a real indi.client.Client (stub server on the simulated network) or to an
in-process SnoopingClient."""
from __future__ import annotations

import base64
import random

from indi.client.client import Client
from indi.device.snoop import SnoopingClient
from indi.message import IndiMessage
from indi.transport.client import TCP as ClientTCP

from ..env import RawPeer
from ..gen.spellings import library_style, rand_style, spell
from ..ref.client_model import ClientModel, diff_snapshots, library_snapshot
from ..ref.structural import view_of_message, view_of_spec

DEVS = ["DA", "DB"]
PROPS = ["P1", "P2", "P3"]
ELS = ["E1", "E2", "E3"]
KINDS = ["Text", "Number", "Switch", "Light", "BLOB"]
STATES = ["Idle", "Ok", "Busy", "Alert"]
STAMPS = ["2026-01-01T00:00:00", "2026-01-01T00:00:00", "2026-01-01T00:00:01", "2025-12-31T23:59:59"]


def _val(rng, kind, serial):
    if kind == "Text":
        return rng.choice([f"t{serial}", f"t{serial} <&> \xe9", "same", None])
    if kind == "Number":
        return rng.choice([str(serial), f"{serial}.5", f"-{serial}", f"{serial % 60}:30", "7"])
    if kind == "Switch":
        return rng.choice(["On", "Off"])
    if kind == "Light":
        return rng.choice(STATES)
    return None


def gen_stream(rng, n, awkward=False, blob_unique=True):
    """-> list of specs (dict) ; each also carries 'awkward': bool"""
    out = []
    defined = {}  # (dev, prop) -> kind, as far as the generator can tell (later deletions are not tracked on purpose)
    for i in range(n):
        r = rng.random()
        dev = rng.choice(DEVS + ["DA"])
        if r < 0.3:
            kind = rng.choice(KINDS)
            pname = rng.choice(PROPS)
            defined[(dev, pname)] = kind
            attrs = [["device", dev], ["name", pname], ["state", rng.choice(STATES)]]
            if kind != "Light":
                attrs.append(["perm", rng.choice(["ro", "rw", "wo"])])
            if kind == "Switch":
                attrs.append(["rule", rng.choice(["OneOfMany", "AtMostOne", "AnyOfMany"])])
            if rng.random() < 0.6:
                attrs.append(["label", f"L{i}"])
            if rng.random() < 0.6:
                attrs.append(["group", rng.choice(["G1", "G2"])])
            kids = []
            for el in rng.sample(ELS, rng.randint(0, 3)):
                ka = [["name", el]]
                if rng.random() < 0.5:
                    ka.append(["label", f"l{el}{i}"])
                if kind == "Number":
                    ka += [["format", "%g"], ["min", "0"], ["max", "100"], ["step", "1"]]
                v = _val(rng, kind, i)
                if kind == "Switch" and v is None:
                    v = "Off"
                if kind == "Light" and v is None:
                    v = "Ok"
                kids.append({"tag": f"def{kind}", "attrs": ka, "text": v, "children": []})
            if rng.random() < 0.5:
                attrs.append(["timestamp", rng.choice(STAMPS)])
            out.append({"tag": f"def{kind}Vector", "attrs": attrs, "text": None, "children": kids, "awkward": False})
        elif r < 0.75:
            kind = rng.choice(KINDS)
            tdev, tprop = rng.choice([dev, dev, "DZ"]), rng.choice(PROPS + ["P9"])
            if defined and rng.random() < 0.7:
                (tdev, tprop), kind = rng.choice(sorted(defined.items()))
                if rng.random() < 0.1:
                    kind = rng.choice(KINDS)
            attrs = [["device", tdev], ["name", tprop], ["state", rng.choice(STATES)]]
            kids = []
            awk = False
            for el in rng.sample(ELS + ["E9"], rng.randint(0, 3)):
                ka = [["name", el]]
                if kind == "BLOB":
                    mode = rng.choice(["ok", "ok", "empty", "absent"] + (["wrong_size", "bad_b64"] if awkward else []))
                    data = bytes([i % 256, len(out) % 256, rng.randrange(256), rng.randrange(256)]) + bytes(rng.randrange(256) for _ in range(rng.randint(0, 20)))
                    if mode == "ok":
                        if rng.random() < 0.4:
                            data += bytes(rng.randrange(256) for _ in range(rng.randint(60, 200)))
                        ka += [["size", str(len(data))], ["format", rng.choice([".fits", ".b", ""])]]
                        text = base64.b64encode(data).decode()
                        if len(text) > 76 and rng.random() < 0.7:
                            # foreign servers (indiserver) wrap base64 payloads at 72 columns
                            text = "\n".join(text[i:i + 72] for i in range(0, len(text), 72))
                    elif mode == "empty":
                        ka += [["size", "0"], ["format", ".e"]]
                        text = ""
                    elif mode == "absent":
                        ka += [["size", "0"], ["format", ".a"]]
                        text = None
                    elif mode == "wrong_size":
                        ka += [["size", "9999"], ["format", ".w"]]
                        text = base64.b64encode(data).decode()
                        awk = True
                    else:
                        ka += [["size", "3"], ["format", ".x"]]
                        text = "!!!*"
                        awk = True
                    kids.append({"tag": "oneBLOB", "attrs": ka, "text": text, "children": []})
                else:
                    v = _val(rng, kind, i)
                    if kind == "Switch" and v is None:
                        v = "On"
                    if kind == "Light" and v is None:
                        v = "Busy"
                    if kind == "Number" and v is None:
                        v = "1"
                    kids.append({"tag": f"one{kind}", "attrs": ka, "text": v, "children": []})
            if rng.random() < 0.5:
                # servers stamp their messages, often with one-second resolution: consecutive messages carry equal stamps
                attrs.append(["timestamp", rng.choice(STAMPS)])
            out.append({"tag": f"set{kind}Vector", "attrs": attrs, "text": None, "children": kids, "awkward": awk})
        elif r < 0.88:
            attrs = [["device", rng.choice([dev, dev, "DZ"])]]
            if rng.random() < 0.65:
                attrs.append(["name", rng.choice(PROPS + ["P9"])])
            out.append({"tag": "delProperty", "attrs": attrs, "text": None, "children": [], "awkward": False})
        elif r < 0.94:
            out.append({"tag": "pingRequest", "attrs": [["uid", f"p{i}"]], "text": None, "children": [], "awkward": False})
        else:
            out.append({"tag": "getProperties", "attrs": [["version", "1.7"], ["device", dev]], "text": None, "children": [], "awkward": False})
    return out


SENTINEL = {"tag": "defTextVector", "attrs": [["device", "SENTINEL"], ["name", "END"], ["state", "Ok"], ["perm", "ro"]], "text": None,
            "children": [{"tag": "defText", "attrs": [["name", "E"]], "text": "end", "children": []}], "awkward": False}


class NetClientWorld:
    """Real Client connected (control + BLOB connection) to a stub server."""

    def __init__(self, sim, eager=None):
        """eager: bytes the stub server pushes on the control connection as soon as it accepts it, i.e. before the client
        has asked for anything (legal for 'any server', and what indiserver does for late joiners of a snooped device)."""
        self.sim = sim
        self.peers = []

        def factory():
            p = RawPeer(sim, f"srv{len(self.peers)}")
            if not self.peers and eager:
                p.on_connect = lambda peer: peer.send(eager)
            self.peers.append(p)
            return p

        sim.spawn(sim.loop.create_server(factory, "sim", 7624))
        sim.settle()
        self.client = Client(ClientTCP("sim", 7624), ClientTCP("sim", 7624))
        self.applied = []
        self.after_apply = None  # callback(view, raised)
        orig = self.client.process_message

        def spy(msg):
            v = view_of_message(msg)
            self.applied.append(v)
            try:
                r = orig(msg)
            except BaseException as e:  # noqa
                if self.after_apply:
                    self.after_apply(v, e)
                raise
            if self.after_apply:
                self.after_apply(v, None)
            return r

        self.client.process_message = spy
        sim.net.connect_names += ["ctl", "blob"]
        sim.spawn(self.client.start())
        sim.settle()
        self.ctl, self.blob = self.peers[0], self.peers[1]
        tasks = [t for t in sim.loop.all_tasks if "wait_for_messages" in repr(t.get_coro())]
        self.recv_tasks = tasks

    def send(self, spec, style, on_blob=False):
        xml = spell(spec, style)
        (self.blob if on_blob else self.ctl).send(xml.encode("latin1", "xmlcharrefreplace"))

    def alive(self):
        if getattr(self, "blob_closed", False):
            # the server has hung up the BLOB connection: that receive loop has ended, the control one must go on
            return sum(1 for t in self.recv_tasks if t.done()) <= 1
        return all(not t.done() for t in self.recv_tasks)

    def close_blob_connection(self):
        self.blob_closed = True
        self.blob.close()


class SnoopWorld:
    """In-process SnoopingClient fed through message_from_device."""

    def __init__(self, sim):
        self.sim = sim
        self.client = SnoopingClient(None)
        self.applied = []
        self.after_apply = None

    def send(self, spec, style, on_blob=False):
        msg = IndiMessage.from_string(spell(spec, style))
        v = view_of_message(msg)
        self.applied.append(v)
        try:
            self.sim.do(self.client.message_from_device, msg)
        except BaseException as e:  # noqa
            if self.after_apply:
                self.after_apply(v, e)
            return
        if self.after_apply:
            self.after_apply(v, None)

    def alive(self):
        return True
