"""Shared executor for C04 and C05: router membership/traffic histories against RouterModel.

level 1: real Router, recording endpoints (+ real Drivers), direct calls.
level 2: real Router + real TCP server + real ConnectionHandlers; clients are raw peers on the
         simulated network; registration is a connect, unregistration a disconnect/reset, messages
         arrive over the (fragmented) wire.  The model is driven by the router's observed call
         order (spy), so any interleaving the simulation produces is checked call by call.
"""
from __future__ import annotations

import hashlib
import random

from indi import message as M
from indi.message import IndiMessage, const
from indi.routing import Client, Device, Router
from indi.device import Driver, properties
from indi.transport.server import tcp as server_tcp

from ..env import RawPeer, Sim
from ..gen.messages import MsgGen
from ..gen.spellings import library_style, rand_style, spell
from ..ref.router_model import RouterModel, CLIENT_KINDS, DEVICE_KINDS
from ..ref.structural import short, view_of_message, view_of_xml
from ..ref.xmlsplit import parse_elements
from ..simnet import NetConfig
from ..simpool import PoolConfig

NAMES = ["A", "B", None, "Z"]
CLIENT_SEND = ["getProperties", "enableBLOB", "pingReply", "newTextVector", "newNumberVector", "newSwitchVector", "newBLOBVector"]
DEVICE_SEND = ["defTextVector", "defNumberVector", "defSwitchVector", "defLightVector", "defBLOBVector",
               "setTextVector", "setNumberVector", "setSwitchVector", "setLightVector", "setBLOBVector",
               "delProperty", "pingRequest", "getProperties", "message"]


def make_spec(rng, kind, device, blob_value=None):
    """A valid spec of `kind` addressed to `device` (None = attribute absent where the grammar allows)."""
    g = MsgGen(rng, charset="ascii", max_children=2, text_len=6)
    if kind == "message":
        attrs = [["message", "note"]]
        if device is not None:
            attrs.append(["device", device])
        return {"tag": "message", "attrs": attrs, "text": None, "children": []}
    spec = g.message(kind)
    attrs = [[k, v] for k, v in spec["attrs"] if k != "device"]
    if kind in ("pingRequest", "pingReply"):
        pass
    elif device is not None:
        attrs.append(["device", device])
    elif kind not in ("getProperties",):
        attrs.append(["device", "A"])
    spec["attrs"] = attrs
    if kind == "enableBLOB":
        spec["text"] = blob_value or "Never"
    return spec


def spec_device(spec):
    for k, v in spec["attrs"]:
        if k == "device":
            return v
    return None


def build_message(spec):
    if spec["tag"] == "message":
        d = dict(spec["attrs"])
        return M.Message(device=d.get("device"), message=d.get("message"))
    return IndiMessage.from_string(spell(spec, library_style()))


REACTIONS = {"enableBLOB": ["setBLOBVector", "setTextVector"], "getProperties": ["defTextVector", "setBLOBVector"],
             "newTextVector": ["setTextVector"], "newBLOBVector": ["setBLOBVector"]}


class RecDevice(Device):
    def __init__(self, did, name, log, catch_all=False, raises_on=None, reactor=None):
        self.did, self.name, self.log, self.catch_all = did, name, log, catch_all
        self.raises_on = raises_on  # message kind on which this endpoint fails (a buggy driver handler)
        # (router, probe): this endpoint answers synchronously, from inside message_from_client, with messages of its own
        # (a camera re-publishing its frame on enableBLOB, a driver answering getProperties) - routed while the router is
        # still busy with the client's message
        self.reactor = reactor

    def accepts(self, device):
        return self.catch_all or device is None or device == self.name

    def message_from_client(self, message):
        self.log(("dev", self.did, message))
        if self.raises_on and message.tag_name() == self.raises_on:
            raise RuntimeError("injected failure in a device endpoint")
        if self.reactor and message.tag_name() in REACTIONS:
            router, probe = self.reactor
            for i, kind in enumerate(REACTIONS[message.tag_name()]):
                probe("device_answered_inside_router_call")
                router.process_message(build_message(make_spec(random.Random(i), kind, self.name)), sender=self)


class RecClient(Client):
    def __init__(self, cid, log):
        self.cid, self.log = cid, log

    def message_from_device(self, message):
        self.log(("cli", self.cid, message))


class RecBoth(RecDevice, Client):
    """An endpoint that is both a device and a message sink (like indi.device.Proxy)."""

    def __init__(self, did, name, log):
        RecDevice.__init__(self, did, name, log, catch_all=True)
        self.cid = did

    def message_from_device(self, message):
        self.log(("cli", self.cid, message))


def _driver_class():
    return type("GenDrv", (Driver,), {
        "main": properties.Group("MAIN", vectors=dict(
            text=properties.TextVector("TEXT", elements=dict(t=properties.Text("T", default="x"))))),
    })


# ---------------------------------------------------------------------------------------
def generate(seed, tier, index, focus):
    rng = random.Random(seed)
    level = 1 if rng.random() < 0.6 else 2
    thorough = tier == "thorough"
    n = rng.randint(4, 60 if thorough else 24)
    steps = []
    if level == 1:
        for _ in range(rng.randint(0, 3)):
            steps.append({"op": "reg_dev", "name": rng.choice(["A", "B", "*"]), "kind": rng.choice(["rec", "rec", "both", "driver", "driver_dyn", "raiser", "reactor", "reactor"])})
        for _ in range(rng.randint(0, 3)):
            steps.append({"op": "reg_cli"})
        for _ in range(n):
            r = rng.random()
            if r < 0.06:
                steps.append({"op": "reg_dev", "name": rng.choice(["A", "B", "*"]), "kind": rng.choice(["rec", "rec", "both", "driver", "driver_dyn", "reactor"])})
            elif r < 0.14:
                steps.append({"op": "reg_cli"})
            elif r < 0.2:
                steps.append({"op": "unreg_cli", "c": rng.randrange(8)})
            elif r < 0.23:
                steps.append({"op": "rereg_cli", "c": rng.randrange(8)})
            elif r < 0.25:
                # the same client object registered a second time (an application that calls register_client on every reconnect):
                # it then occupies two slots of the router's list - whatever that means for deliveries to it, it is still one sender
                steps.append({"op": "dup_reg_cli", "c": rng.randrange(8)})
            elif r < 0.42:
                steps.append({"op": "blob", "c": rng.randrange(8), "device": rng.choice(["A", "B", "Z"]), "value": rng.choice(["Never", "Also", "Only"])})
            elif r < 0.47:
                # a real driver starts snooping on a device through its own snooping client (a client of the router in its own right)
                steps.append({"op": "snoop", "d": rng.randrange(6), "device": rng.choice(["A", "B", "Z"]), "name": rng.choice([None, None, "TEXT"]),
                              # ... and may ask for the snooped device's BLOBs (a guider snooping a camera's images)
                              "blob": rng.choice([None, None, "Also", "Only", "Never"])})
            else:
                from_client = rng.random() < (0.65 if focus == "C04" else 0.3)
                if from_client:
                    kind = rng.choice(CLIENT_SEND)
                    sender = rng.choice([["c", rng.randrange(8)], ["c", rng.randrange(8)], ["b", rng.randrange(4)], None])
                else:
                    kind = rng.choice(DEVICE_SEND + ["setBLOBVector"] * 3)
                    sender = rng.choice([["d", rng.randrange(6)], ["d", rng.randrange(6)], ["b", rng.randrange(4)], None])
                steps.append({"op": "send", "kind": kind, "device": rng.choice(NAMES), "sender": sender, "seed": rng.randrange(1 << 30),
                              "value": rng.choice(["Never", "Also", "Only"])})
        return {"level": 1, "steps": steps, "focus": focus}
    # level 2
    for _ in range(rng.randint(1, 3)):
        steps.append({"op": "reg_dev", "name": rng.choice(["A", "B", "*"]), "kind": rng.choice(["rec", "rec", "reactor"])})
    for _ in range(rng.randint(1, 3)):
        steps.append({"op": "connect"})
    for _ in range(n):
        r = rng.random()
        if r < 0.1:
            steps.append({"op": "connect"})
        elif r < 0.17:
            steps.append({"op": "close", "c": rng.randrange(8)})
        elif r < 0.21:
            steps.append({"op": "reset", "c": rng.randrange(8)})
        elif r < 0.38:
            steps.append({"op": "blob", "c": rng.randrange(8), "device": rng.choice(["A", "B", "Z"]), "value": rng.choice(["Never", "Also", "Only"]),
                          "style": rand_style(rng)})
        elif r < 0.5:
            steps.append({"op": rng.choice(["settle", "gap", "gap"]), "dt": rng.choice([0.0, 0.001, 0.01, 1.0])})
            if steps[-1]["op"] == "gap" and rng.random() < 0.5:
                steps[-1]["iters"] = rng.randint(1, 6)
        else:
            from_client = rng.random() < (0.65 if focus == "C04" else 0.3)
            if from_client:
                steps.append({"op": "send_client", "c": rng.randrange(8), "kind": rng.choice(CLIENT_SEND), "device": rng.choice(NAMES),
                              "seed": rng.randrange(1 << 30), "style": rand_style(rng), "value": rng.choice(["Never", "Also", "Only"])})
                if rng.random() < 0.2:
                    # attributes the protocol does not know (a newer protocol version, a chatty client): ignored, whatever their names
                    steps[-1]["extra_attrs"] = [[nm, rng.choice(["1", "true", "", "x"])] for nm in
                                                rng.sample(["hints", "origin", "from_device", "from_client", "sender", "children", "tag", "_x"], rng.randint(1, 2))]
            else:
                steps.append({"op": "send_device", "d": rng.randrange(6), "kind": rng.choice(DEVICE_SEND + ["setBLOBVector"] * 3),
                              "device": rng.choice(NAMES), "seed": rng.randrange(1 << 30)})
    net = {"latency": rng.choice(["zero", "lan", "lan", "slow", "bursty"]), "frag": rng.choice(["whole", "fixed:1", "fixed:7", "random", "coalesce", "random"]),
           "hwm": rng.choice([0, 1, 64, 65536])}
    return {"level": 2, "steps": steps, "net": net, "focus": focus, "seed": rng.randrange(1 << 30)}


# ---------------------------------------------------------------------------------------
def _sh(x):
    return int.from_bytes(hashlib.sha256(repr(x).encode()).digest()[:8], "big")


class _IdMap(dict):
    def __init__(self):
        super().__init__()
        self.keep = []

    def hold(self, obj):
        self.keep.append(obj)


class Checker:
    """Drives RouterModel from observed router calls and compares deliveries."""

    def __init__(self, focus):
        self.model = RouterModel()
        self.focus = focus
        self.viol = []
        self.stack = []  # active process_message calls: dict(kind, device, sender, got_dev, got_cli)
        self.calls = 0
        self.states = set()
        self.transitions = set()
        self.probes = {}
        self.log_lines = []
        self.ids = _IdMap()  # python object -> id string (keeps the objects alive: id() is never reused within a run)
        self.expect_sender = None  # while a known client is sending: the id every client-kind router call must carry
        self.expect_msg = None  # (kind, device) of a message handed to a driver's own send path: it must reach the router as it is

    def idof(self, obj):
        if obj is None:
            return None
        return self.ids.get(id(obj), "?unregistered")

    def probe(self, k):
        self.probes[k] = self.probes.get(k, 0) + 1

    def violate(self, clause, detail):
        self.viol.append({"clause": clause, "detail": detail, "facts": {"focus": self.focus}})

    def begin(self, message, sender):
        kind = message.tag_name()
        dev = getattr(message, "device", None)
        sid = self.idof(sender)
        if self.expect_msg is not None and not self.stack:
            want, self.expect_msg = self.expect_msg, None
            if want != (kind, dev):
                self.violate("C04.devices" if kind in CLIENT_KINDS else "C05.matrix",
                             f"a driver sent {want[0]} device={want[1]!r}; it reached the router as {kind} device={dev!r}: it is then routed to the wrong endpoints")
        if self.expect_sender is not None and not self.stack and kind in CLIENT_KINDS and sid != self.expect_sender:
            # (outermost call only: nested calls are other endpoints reacting to what they were handed)
            self.violate("C04.relay", f"{kind} sent by client {self.expect_sender} reached the router as coming from {sid}: the router cannot keep it from being handed back to its sender")
        if self.expect_sender is not None and not self.stack and kind in CLIENT_KINDS:
            sid = self.expect_sender  # the model follows who really sent it (a BLOB policy is the sending client's own)
        st = self.model.abstract_state()
        self.states.add(st)
        self.transitions.add((_sh(st), kind, dev, sid))
        exp_dev, exp_cli = self.model.process(kind, dev, sid, getattr(message, "value", None) if kind == "enableBLOB" else None)
        frame = {"kind": kind, "device": dev, "sender": sid, "exp_dev": exp_dev, "exp_cli": exp_cli, "got_dev": [], "got_cli": [],
                 "msg": message}
        self.stack.append(frame)
        self.calls += 1
        self.log_lines.append(("call", kind, dev, sid))
        return frame

    def delivered(self, what, eid, message):
        self.log_lines.append((what, eid, message.tag_name()))
        if not self.stack:
            self.violate(self.focus + ".devices", f"delivery of {message.tag_name()} to {eid} outside any router call")
            return
        fr = self.stack[-1]
        if message is not fr["msg"]:
            # a delivery of some other message inside this call (should be attributed to a nested call)
            self.violate(self.focus + ".devices", f"{eid} received {message.tag_name()} while the router was routing {fr['kind']}")
            return
        fr["got_dev" if what == "dev" else "got_cli"].append(eid)

    def end(self, frame):
        top = self.stack.pop()
        assert top is frame
        k, dev, sid = frame["kind"], frame["device"], frame["sender"]
        ctx = f"{k} device={dev} sender={sid}; devices={[d for d, _ in self.model.devices]} clients={self.model.clients} policy={self.model.policy}"
        if frame["got_dev"] != frame["exp_dev"]:
            if sorted(map(str, frame["got_dev"])) == sorted(map(str, frame["exp_dev"])):
                pass  # order among devices is not part of the property
            else:
                clause = "C04.devices"
                if sid in frame["got_dev"]:
                    clause = "C04.devices"
                self.violate(clause, f"handed to devices {frame['got_dev']} expected {frame['exp_dev']}; {ctx}")
        if sorted(map(str, frame["got_cli"])) != sorted(map(str, frame["exp_cli"])):
            if k in CLIENT_KINDS and k != "getProperties":
                clause = "C04.noleak"
            elif k == "getProperties":
                # relayed for snooping: a client's request is C04's clause, a device's own request is device traffic (C05)
                clause = "C05.matrix" if str(sid or "").startswith("d") else "C04.relay"
            else:
                clause = "C05.matrix"
            self.violate(clause, f"delivered to clients {frame['got_cli']} expected {frame['exp_cli']}; {ctx}")
        if k == "setBLOBVector":
            self.probe("blob_payload_routed")
            if frame["exp_cli"]:
                self.probe("blob_payload_delivered")
        if k == "getProperties" and frame["exp_cli"]:
            self.probe("getProperties_relayed")


def _wrap_router(router, chk):
    orig_pm, orig_rc, orig_uc, orig_rd = router.process_message, router.register_client, router.unregister_client, router.register_device

    def pm(message, sender=None):
        fr = chk.begin(message, sender)
        try:
            r = orig_pm(message, sender)
        except BaseException:
            chk.stack.pop()  # cut short by an endpoint failure: not judged
            raise
        chk.end(fr)
        return r

    def rc(client):
        if id(client) not in chk.ids:
            chk.ids.hold(client)
            chk.ids[id(client)] = f"c{sum(1 for v in chk.ids.values() if v.startswith('c'))}"
        cid = chk.ids[id(client)]
        if cid in chk.model.clients:
            chk.probe("double_registration")
        chk.model.register_client(cid)
        chk.log_lines.append(("register", cid))
        return orig_rc(client)

    def uc(client):
        cid = chk.idof(client)
        chk.model.unregister_client(cid)
        chk.log_lines.append(("unregister", cid))
        return orig_uc(client)

    router.process_message, router.register_client, router.unregister_client = pm, rc, uc


# ---------------------------------------------------------------------------------------
def execute_level1(scen):
    chk = Checker(scen["focus"])
    router = Router()
    _wrap_router(router, chk)
    log = lambda rec: chk.delivered(*rec)  # noqa
    devices, clients, boths = [], [], []

    def add_device(name, kind):
        did = f"d{len(devices)}"
        if kind in ("driver", "driver_dyn"):
            cls = _driver_class()
            dname = "A" if name == "*" else name
            if kind == "driver_dyn":
                # a driver whose public name is computed (overridden `name` property, e.g. from a serial number) rather
                # than passed to the constructor: the name it advertises is the name it answers to
                cls = type("DynNameDrv", (cls,), {"name": property(lambda self: self._dyn_name)})
                d = cls.__new__(cls)
                d._dyn_name = dname
                cls.__init__(d, router=None)
                chk.probe("driver_with_computed_name")
            else:
                d = cls(name=dname, router=None)
            d._router = router
            router.register_device(d)
            orig = d.message_from_client

            def spy(message, d=d, did=did, orig=orig):
                chk.delivered("dev", did, message)
                return orig(message)

            d.message_from_client = spy
            chk.ids.hold(d)
            chk.ids[id(d)] = did
            chk.model.register_device(did, (lambda n, dname=dname: n is None or n == dname))
            devices.append(d)
        elif kind == "both":
            d = RecBoth(did, "A" if name == "*" else name, log)
            chk.ids.hold(d)
            chk.ids[id(d)] = did
            router.register_device(d)
            chk.model.register_device(did, lambda n: True)
            devices.append(d)
            boths.append(d)
            # it also listens (snooper-like): registered as a client under the same id
            router.register_client(d)
        else:
            catch = name == "*"
            d = RecDevice(did, "A" if catch else name, log, catch_all=catch, raises_on="pingReply" if kind == "raiser" else None,
                          reactor=(router, chk.probe) if kind == "reactor" else None)
            chk.ids.hold(d)
            chk.ids[id(d)] = did
            router.register_device(d)
            dn = d.name
            chk.model.register_device(did, (lambda n: True) if catch else (lambda n, dn=dn: n is None or n == dn))
            devices.append(d)

    # a second, independent router in the same process (a TCP server next to a TTY server, an embedded simulator ...):
    # nothing routed through `router` may ever reach its endpoints
    other = Router()
    other_seen = []
    other.register_device(RecDevice("other_dev", "A", lambda rec: other_seen.append(rec), catch_all=True))
    other.register_client(RecClient("other_cli", lambda rec: other_seen.append(rec)))

    with Sim(0) as sim:
        def run():
            for st in scen["steps"]:
                op = st["op"]
                if op == "reg_dev":
                    add_device(st["name"], st["kind"])
                elif op == "reg_cli":
                    c = RecClient(None, log)
                    router.register_client(c)
                    c.cid = chk.idof(c)
                    clients.append(c)
                elif op == "dup_reg_cli":
                    if not clients:
                        continue
                    c = clients[st["c"] % len(clients)]
                    if c.cid in chk.model.clients:
                        router.register_client(c)
                        chk.probe("same_client_registered_twice")
                elif op in ("unreg_cli", "rereg_cli"):
                    if not clients:
                        continue
                    c = clients[st["c"] % len(clients)]
                    registered = c.cid in chk.model.clients
                    if op == "unreg_cli":
                        router.unregister_client(c)
                    else:
                        if registered:
                            router.unregister_client(c)
                        router.register_client(c)
                        chk.probe("reregistered")
                elif op == "snoop":
                    drivers = [d for d in devices if isinstance(d, Driver)]
                    if not drivers:
                        continue
                    drv = drivers[st["d"] % len(drivers)]
                    fresh = drv._snooping_client is None
                    sc = drv.snooping_client  # (created and registered with the router on first use)
                    if fresh:
                        chk.ids.hold(sc)
                        orig_mfd = sc.message_from_device

                        def spy_sc(message, sc=sc, orig_mfd=orig_mfd):
                            chk.delivered("cli", chk.idof(sc), message)
                            return orig_mfd(message)

                        sc.message_from_device = spy_sc
                    chk.expect_sender = chk.idof(sc)
                    try:
                        drv.snoop_device(st["device"], st["name"])
                        if st.get("blob"):
                            sc.send_message(M.EnableBLOB(device=st["device"], value=st["blob"]))
                            chk.probe("snooping_client_sets_blob_policy")
                    finally:
                        chk.expect_sender = None
                    chk.probe("driver_snoops_through_its_own_client")
                elif op == "blob":
                    if not clients:
                        continue
                    c = clients[st["c"] % len(clients)]
                    if c.cid not in chk.model.clients:
                        continue  # enableBLOB from an unregistered sender is C12's business
                    router.process_message(M.EnableBLOB(device=st["device"], value=st["value"]), sender=c)
                elif op == "send":
                    rng = random.Random(st["seed"])
                    sender = None
                    s = st["sender"]
                    if s is not None:
                        pool = {"c": clients, "d": devices, "b": boths}[s[0]]
                        if pool:
                            sender = pool[s[1] % len(pool)]
                    kind = st["kind"]
                    if kind == "enableBLOB" and (sender is None or chk.idof(sender) not in chk.model.clients):
                        continue
                    device = st["device"]
                    if kind.startswith("new") and any(isinstance(d, Driver) for d in devices):
                        # real drivers raise on unknown properties (C12's business): keep C04 histories to addressing
                        kind = "getProperties"
                    spec = make_spec(rng, kind, device, st.get("value"))
                    msg = build_message(spec)
                    try:
                        if isinstance(sender, Driver) and kind in DEVICE_KINDS:
                            # a real driver sends through its own send path (what driver code calls), not through the router directly
                            chk.expect_msg = (kind, getattr(msg, "device", None))
                            chk.probe("driver_sends_through_its_own_send_path")
                            sender.send_message(msg)
                            chk.expect_msg = None
                        else:
                            router.process_message(msg, sender=sender)
                    except RuntimeError as e:
                        if "injected failure" not in str(e):
                            raise
                        chk.probe("endpoint_raised_out_of_router")
                        # the call was cut short: what it had delivered so far is not judged, the frame was already closed
                        # by the spy's finally; later calls are judged normally
        sim.do(run)
        sim.settle()
    if other_seen:
        what, eid, msg = other_seen[0]
        chk.violate("C04.devices" if what == "dev" else "C05.matrix",
                    f"an endpoint registered with ANOTHER Router instance ({eid}) received {msg.tag_name()} ({len(other_seen)} hand-overs): routers share state")
    if len(other.devices) != 1 or len(other.clients) != 1:
        chk.violate("C04.devices", f"another Router instance now lists {len(other.devices)} devices / {len(other.clients)} clients it never registered: routers share state")
    digest = hashlib.sha256(repr(chk.log_lines).encode()).hexdigest()
    return chk, digest, 0.0, 0


def execute_level2(scen):
    chk = Checker(scen["focus"])
    net = scen["net"]
    cfg = NetConfig(latency=net["latency"], frag_default=net["frag"], hwm=net["hwm"])
    faults = {}
    with Sim(scen.get("seed", 0), cfg, PoolConfig()) as sim:
        router = Router()
        _wrap_router(router, chk)
        log = lambda rec: chk.delivered(*rec)  # noqa
        devices = []
        peers = []  # RawPeer per connect op
        handed = {}  # handler id -> [views]
        orig_mfd = server_tcp.ConnectionHandler.message_from_device

        def mfd(self, message):
            hid = chk.idof(self)
            chk.delivered("cli", hid, message)
            handed.setdefault(hid, []).append(view_of_message(message))
            return orig_mfd(self, message)

        server_tcp.ConnectionHandler.message_from_device = mfd
        try:
            sim.spawn(server_tcp.TCP(router, port=7624).start())
            sim.settle()
            for st in scen["steps"]:
                op = st["op"]
                if op == "reg_dev":
                    did = f"d{len(devices)}"
                    catch = st["name"] == "*"
                    d = RecDevice(did, "A" if catch else st["name"], log, catch_all=catch,
                                  reactor=(router, chk.probe) if st.get("kind") == "reactor" else None)
                    chk.ids.hold(d)
                    chk.ids[id(d)] = did
                    router.register_device(d)
                    dn = d.name
                    chk.model.register_device(did, (lambda n: True) if catch else (lambda n, dn=dn: n is None or n == dn))
                    devices.append(d)
                elif op == "connect":
                    p = RawPeer(sim, f"p{len(peers)}")
                    p.closed_by_us = False
                    peers.append(p)
                    sim.spawn(sim.loop.create_connection(lambda p=p: p, "h", 7624))
                    sim.loop.drain(until=sim.loop.time())  # let the accept happen, at the same instant
                elif op in ("close", "reset"):
                    live = [p for p in peers if not p.closed_by_us and p.transport is not None]
                    if not live:
                        continue
                    p = live[st["c"] % len(live)]
                    p.closed_by_us = True
                    if op == "close":
                        sim.do(p.close)
                        faults["eof"] = faults.get("eof", 0) + 1
                    else:
                        sim.do(sim.net.fault_reset, p.transport.peer)
                        faults["reset"] = faults.get("reset", 0) + 1
                elif op in ("blob", "send_client"):
                    live = [p for p in peers if not p.closed_by_us and p.transport is not None]
                    if not live:
                        continue
                    p = live[st["c"] % len(live)]
                    if op == "blob":
                        spec = make_spec(random.Random(0), "enableBLOB", st["device"], st["value"])
                    else:
                        spec = make_spec(random.Random(st["seed"]), st["kind"], st["device"], st.get("value"))
                        have = {k for k, _ in spec["attrs"]}
                        for nm, val in st.get("extra_attrs", []):
                            if nm not in have:
                                spec["attrs"].append([nm, val])
                                chk.probe("client_message_with_unknown_attributes")
                    sim.do(p.send, spell(spec, st["style"]).encode("latin1"))
                elif op == "send_device":
                    if not devices:
                        continue
                    d = devices[st["d"] % len(devices)]
                    spec = make_spec(random.Random(st["seed"]), st["kind"], st["device"])
                    msg = build_message(spec)
                    sim.do(router.process_message, msg, d)
                elif op == "gap":
                    sim.gap(st)
                elif op == "settle":
                    sim.settle()
            sim.settle()
            # wire check: what each raw peer received is exactly what its handler was handed
            hids = sorted((v for v in chk.ids.values() if v.startswith("c")), key=lambda s: int(s[1:]))
            for i, p in enumerate(peers):
                hid = f"c{i}"
                if hid not in hids:
                    continue
                try:
                    els, tail, junk = parse_elements(p.text)
                except Exception as e:  # noqa
                    chk.violate("C05.wire", f"peer {i} received unparseable bytes: {e!r}: {p.text[:200]!r}")
                    continue
                got = [view_of_xml(e) for e in els]
                exp = handed.get(hid, [])
                if p.closed_by_us:
                    if got != exp[: len(got)]:
                        chk.violate("C05.wire", f"closed peer {i} received {len(got)} messages that are not a prefix of the {len(exp)} handed to its handler")
                else:
                    if got != exp or tail.strip():
                        chk.violate("C05.wire", f"peer {i} received {[g[0] for g in got]} but its handler was handed {[e[0] for e in exp]} tail={tail[:50]!r}")
            # no escaped exceptions
            for name, exc in sim.loop.task_failures():
                if isinstance(exc, ConnectionError):
                    chk.probe("send_in_flight_failed_on_dead_connection")  # legitimate under a close/reset fault
                    continue
                chk.violate("C05.wire", f"task {name} failed: {exc!r}")
            if server_tcp.ConnectionHandler.connections and False:
                pass
            for k in ("pause_writing", "write_after_close", "rst_on_write_to_closed_peer"):
                if sim.net.counters.get(k):
                    chk.probes[k] = sim.net.counters[k]
            vtime, steps = sim.loop.time(), sim.loop.steps
        finally:
            server_tcp.ConnectionHandler.message_from_device = orig_mfd
    digest = hashlib.sha256(repr(chk.log_lines).encode()).hexdigest()
    chk.faults = faults
    return chk, digest, vtime, steps


def execute(scen):
    if scen["level"] == 1:
        chk, digest, vtime, steps = execute_level1(scen)
        faults = {}
    else:
        chk, digest, vtime, steps = execute_level2(scen)
        faults = chk.faults
    focus = scen["focus"]
    viol = [v for v in chk.viol if v["clause"].startswith(focus)]
    kinds = tuple(sorted({l[1] for l in chk.log_lines if l[0] == "call"}))
    sig = repr((scen["level"], kinds, len(chk.states), tuple(sorted(chk.probes))))
    return {"violations": viol, "digest": digest, "probes": chk.probes, "faults": faults, "steps": steps + chk.calls, "vtime": vtime,
            "sig": sig, "nontrivial": chk.calls >= 2 and len(chk.states) >= 2,
            "extra": {"router_calls": chk.calls, "abstract_states": [_sh(s) for s in chk.states],
                      "state_op_pairs": [_sh(t) for t in chk.transitions]},
            "sample": {"level": scen["level"], "history": [list(map(str, l)) for l in chk.log_lines[:40]]}}
