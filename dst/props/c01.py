"""C01 - client view converges to the device's true property state."""
from __future__ import annotations

import copy
import random

from indi.device.values import num_to_str

from ..env import Sim
from ..gen import drivers as G
from ..gen import values as V
from ..simnet import NetConfig
from ..simpool import PoolConfig
from ..worlds.ops import apply_step
from ..worlds.stack import Stack
from .. import watchdog

ID = "C01"
LEVEL = "exploration"
TECHNIQUE = "deterministic simulation of the full stack (drivers, router, real TCP server, real two-connection client, snooping clients) over seeded histories x fragmentations x latencies; mirror compared with driver truth at quiescence"
RULE = ("scenario = generated driver definitions (inheritance depth<=3, all vector kinds/rules/formats, enabled flags) x history of "
        "driver-side and client-side operations (incl. values that compare equal but render differently: signed zeros) with virtual gaps x network knobs (fragmentation mode, latency profile incl. "
        "per-connection skew, high-water mark); distinct = different signature (op kinds used, vector kinds, net knobs, depth, "
        "#clients, snoop); non-trivial = at least one settle point after at least one state-changing operation with a started client")
COMPONENTS = {
    "real": ["indi.device (Driver, groups, vectors, elements, events)", "indi.routing.Router", "indi.message codec",
             "indi.transport.server.tcp", "indi.transport.client.tcp", "indi.transport.buffer", "indi.client (Client, Device, vectors, elements)",
             "indi.device.snoop.SnoopingClient", "asyncio streams/locks/tasks"],
    "stub": ["SimLoop (event loop core, clock)", "SimNet (sockets, segmentation, latency, back-pressure)", "indi.message.now (virtual timestamps)"],
}
ASSUMPTIONS = [
    "fault-free network (convergence, not survival); every serialised message stays below the 2048-character control-connection threshold (runs that exceed it are counted as oversize and not judged)",
    "number texts are compared with the library's own rendering (rendering conventions are C10)",
    "a mirrored BLOB must be unset/empty or bit-exact; BLOB delivery itself is C08",
    "exceptions raised by a scenario's own API call (e.g. a setter) are recorded as a failed operation, not as C01.raise; only exceptions escaping tasks count",
]
QUICK_RUNS = 1500
QUICK_BUDGET_S = 150
THOROUGH_BUDGET_S = 360
CHUNK = 25
STEP_KEYS = ("steps",)
KINDS = ["Text", "Number", "Switch", "Light", "BLOB"]


# ---------------------------------------------------------------------------------------
def _targets(specs):
    """Flat lists of addressable things from the specs."""
    vecs, els, groups = [], [], []
    for s in specs:
        for attr, g in G.effective_groups(s).items():
            groups.append((s["name"], g["name"]))
            for v in g["vectors"].values():
                vecs.append((s["name"], v))
                for e in v["elements"].values():
                    els.append((s["name"], v, e))
    return vecs, els, groups


def gen_steps(rng, specs, nclients, n, client_ops=True, late_start=False, snoopers=()):
    vecs, els, groups = _targets(specs)
    steps = []
    for _ in range(n):
        r = rng.random()
        if r < 0.05:
            # a flag changed while its group is hidden must still take effect when the group comes back
            d, v = rng.choice(vecs)
            gname = [g["name"] for s in specs if s["name"] == d for g in G.effective_groups(s).values()
                     if any(x["name"] == v["name"] for x in g["vectors"].values())][0]
            steps += [{"op": "d_genable", "dev": d, "group": gname, "value": False},
                      {"op": "d_venable", "dev": d, "vec": v["name"], "value": rng.random() < 0.5},
                      {"op": "d_genable", "dev": d, "group": gname, "value": True}]
            continue
        if client_ops and rng.random() < 0.04:
            # updates of one element around the very iterations in which a stalled connection comes back: one sent into the
            # stall, one queued behind it, one published k loop iterations later - i.e. possibly between the drain completing,
            # the send lock being released and the queued sender resuming.  The last one must win on every client.
            cands = [(d, v, e) for d, v, e in els if v["kind"] in ("Text", "Number")]
            if cands:
                d, v, e = rng.choice(cands)
                steps.append({"op": "settle"})
                steps.append({"op": "stall", "conn": rng.choice(["cl0.ctl", "cl1.ctl"]), "dir": "down", "dt": rng.choice([0.01, 0.5])})
                steps.append({"op": "d_assign", "dev": d, "vec": v["name"], "el": e["name"], "value": V.driver_value(rng, v["kind"], e)})
                steps.append({"op": "gap", "dt": 0.0, "iters": rng.randint(1, 4)})  # (the first one is now waiting for the peer)
                steps.append({"op": "d_assign", "dev": d, "vec": v["name"], "el": e["name"], "value": V.driver_value(rng, v["kind"], e)})
                steps.append({"op": "gap", "dt": 0.0, "iters": rng.randint(1, 14)})
                steps.append({"op": "d_assign", "dev": d, "vec": v["name"], "el": e["name"], "value": V.driver_value(rng, v["kind"], e)})
                steps.append({"op": "settle"})
            continue
        if r < 0.28:
            d, v, e = rng.choice(els)
            if v["kind"] == "Number" and rng.random() < 0.25:
                # two values that compare equal and render differently (signed zeros), one after the other:
                # the second assignment changes what clients must show although `old == new`
                a, b = rng.choice([(0.0, -0.0), (-0.0, 0.0)])
                for val in (a, b):
                    if client_ops and v["perm"] != "ro" and e["enabled"] and rng.random() < 0.3:
                        steps.append({"op": "c_write", "c": rng.randrange(4), "dev": d, "vec": v["name"], "els": [[e["name"], repr(val)]]})
                    else:
                        steps.append({"op": rng.choice(["d_assign", "d_set_value"]), "dev": d, "vec": v["name"], "el": e["name"], "value": val})
                continue
            steps.append({"op": rng.choice(["d_assign", "d_assign", "d_set_value"]), "dev": d, "vec": v["name"], "el": e["name"],
                          "value": V.driver_value(rng, v["kind"], e)})
        elif r < 0.34:
            cands = [(d, v, e) for d, v, e in els if v["kind"] == "Switch"]
            if cands:
                d, v, e = rng.choice(cands)
                if rng.random() < 0.5:
                    steps.append({"op": "d_bool", "dev": d, "vec": v["name"], "el": e["name"], "value": rng.random() < 0.6})
                else:
                    steps.append({"op": "d_select", "dev": d, "vec": v["name"], "el": e["name"]})
        elif r < 0.44:
            d, v = rng.choice(vecs)
            steps.append({"op": "d_state", "dev": d, "vec": v["name"], "value": rng.choice(V.STATES)})
        elif r < 0.54:
            d, v = rng.choice(vecs)
            steps.append({"op": "d_venable", "dev": d, "vec": v["name"], "value": rng.random() < 0.6})
        elif r < 0.6:
            d, g = rng.choice(groups)
            steps.append({"op": "d_genable", "dev": d, "group": g, "value": rng.random() < 0.6})
        elif r < 0.66 and client_ops:
            d, v = rng.choice(vecs)
            steps.append({"op": "c_handshake", "c": rng.randrange(4), "device": rng.choice([None, d]), "name": None})
            if steps[-1]["device"] and rng.random() < 0.5:
                steps[-1]["name"] = v["name"]
        elif r < 0.8 and client_ops:
            cands = [(d, v) for d, v in vecs if v["kind"] in ("Text", "Number", "Switch") and v["perm"] != "ro"]
            if cands:
                d, v = rng.choice(cands)
                chosen = rng.sample(list(v["elements"].values()), rng.randint(1, len(v["elements"])))
                pairs = []
                for e in chosen:
                    if not e["enabled"]:
                        continue
                    if v["kind"] == "Number":
                        val = V.client_number(rng, e["format"])[0]
                    elif v["kind"] == "Text":
                        val = V.rand_text(rng)
                    else:
                        val = rng.choice(["On", "Off"])
                    pairs.append([e["name"], val])
                if pairs and v["kind"] == "Number" and rng.random() < (0.25 if len(pairs) >= 2 else 0.4):
                    # one element of a multi-element write carries a number text the property's format cannot take
                    # (legal for the client API, unusable for the driver): the rest of the write must still converge; when it is
                    # the only element the driver applies nothing and answers nothing - the client's view must not move either
                    k = rng.randrange(len(pairs))
                    e = [x for x in v["elements"].values() if x["name"] == pairs[k][0]][0]
                    pairs[k][1] = "12.5" if V.is_sexa(e["format"]) else "1:30"
                if pairs:
                    steps.append({"op": "c_write", "c": rng.randrange(4), "dev": d, "vec": v["name"], "els": pairs})
        elif r < 0.87:
            steps.append({"op": "gap", "dt": rng.choice([0.0, 0.0, 0.001, 0.05, 1.0, 10.0])})
            if rng.random() < 0.4:
                steps[-1]["iters"] = rng.randint(1, 8)
        elif r < 0.9:
            steps.append({"op": "stall", "conn": rng.choice(["cl0.ctl", "cl0.blob", "cl1.ctl"]), "dir": rng.choice(["up", "down"]),
                          "dt": rng.choice([0.01, 0.5, 5.0, 30.0])})
        else:
            steps.append({"op": "settle"})
    return steps


def generate(seed, tier, index):
    rng = random.Random(seed)
    thorough = tier == "thorough"
    G.SPICY_NAMES[0] = rng.random() < 0.2  # property / element / group names with blanks, markup and non-ASCII characters
    ndev = rng.choice([1, 1, 2, 3])
    specs = [G.gen_device(rng, f"DEV{i}", kinds=KINDS, spicy=rng.random() < 0.6, max_depth=3, all_min_max=rng.random() < 0.5)
             for i in range(ndev)]
    if ndev >= 2 and rng.random() < 0.3:
        specs[1] = G.clone_as_second_instance(specs[0], "DEV1")  # two instances of one driver class
    elif ndev >= 2 and rng.random() < 0.3 and len(specs[0]["levels"]) <= 2:
        specs[1] = G.derive_family_member(rng, specs[0], "DEV1", KINDS)  # base driver and a subclass of it on one router
    nclients = rng.choice([1, 1, 2])
    snoop = []
    if ndev >= 2 and rng.random() < 0.4:
        a, b = rng.sample(specs, 2)
        vecs, _, _ = _targets([b])
        snoop.append({"drv": a["name"], "device": b["name"], "name": rng.choice([None, rng.choice(vecs)[1]["name"]])})
    n = rng.randint(1, 40 if thorough else 16)
    steps = []
    late = rng.random() < 0.3
    if late:
        pre = gen_steps(rng, specs, nclients, rng.randint(0, 5), client_ops=False)
        steps += pre
    unveil = None
    if rng.random() < 0.2:
        # every BLOB property of one device is hidden when the clients connect; one of them gets its payload while hidden
        # and is shown later, at rest: the clients have known the device all along and must end up with the payload
        vecs_all, els_all, _ = _targets(specs)
        dn = rng.choice(specs)["name"]
        bl = [v for d, v in vecs_all if d == dn and v["kind"] == "BLOB"]
        if bl:
            for v in bl:
                steps.append({"op": "d_venable", "dev": dn, "vec": v["name"], "value": False})
            v0 = rng.choice(bl)
            e0 = rng.choice(list(v0["elements"].values()))
            unveil = [{"op": "d_assign", "dev": dn, "vec": v0["name"], "el": e0["name"], "value": V.driver_value(rng, "BLOB", e0)},
                      {"op": "settle"}, {"op": "d_venable", "dev": dn, "vec": v0["name"], "value": True}, {"op": "settle"}]
    for c in range(nclients):
        steps.append({"op": "start_client", "c": c})
    for s in snoop:
        steps.append(dict(op="snoop", **s))
    body = gen_steps(rng, specs, nclients, n)
    if unveil:
        k = rng.randint(0, len(body))
        body = body[:k] + [{"op": "settle"}] + unveil + body[k:]
    steps += body
    net = {"latency": rng.choice(["zero", "lan", "lan", "slow", "bursty", "skew", "skew"]),
           "frag": rng.choice(["whole", "fixed:1", "fixed:7", "fixed:64", "fixed:1024", "random", "random", "coalesce"]),
           "hwm": rng.choice([0, 1, 64, 65536, 65536])}
    return {"devices": specs, "nclients": nclients, "steps": steps, "net": net, "seed": rng.randrange(1 << 30),
            "tie_shuffle": rng.random() < 0.5}


# ---------------------------------------------------------------------------------------
def _norm(t):
    if t is None:
        return None
    t = str(t).strip()
    return t or None


def expected_text(kind, value, espec):
    if kind == "Number":
        return _norm(num_to_str(value, espec["format"]))
    if kind in ("Text", "Switch", "Light"):
        return _norm(value)
    return value


def blob_matches(mirror_val, truth_val):
    """mirror either unset/empty or bit-exact"""
    if mirror_val is None:
        return True
    if isinstance(mirror_val, str):
        return False
    mb, mf = bytes(mirror_val.binary), mirror_val.format
    if truth_val is None:
        return mb == b""
    return mb == bytes(truth_val.binary) and (mf or "") == (truth_val.format or "")


def _stamp(view):
    for k, v in view[1]:
        if k == "timestamp" and "#" in v:
            return int(v.rsplit("#", 1)[1])
    return None


def _inversion(applied, devname, vname):
    """Emission serial numbers of the messages about one vector, in the order the client applied them,
    if that order is not the emission order (possible only across the control and the BLOB connection)."""
    if not applied:
        return None
    seq = []
    for v in applied:
        a = dict(v[1])
        if a.get("device") == devname and a.get("name") == vname:
            st = _stamp(v)
            if st is not None:
                seq.append((v[0], st))
    nums = [n for _, n in seq]
    if nums != sorted(nums):
        return seq[-6:]
    return None


def _published_before_only(stack, devname, vname, applied=None):
    """True iff the last setBLOBVector of this vector was routed before some client's enableBLOB Only
    for the device reached the router (the INDI enableBLOB race: nobody could receive that update)."""
    last_set = None
    last_only = None
    first_def = None
    # the first definition of the device THIS client applied (identified by its emission stamp): from there on it knows the
    # device and asks for its BLOBs at once
    first_stamp = None
    for v in applied or ():
        if v[0].startswith("def") and dict(v[1]).get("device") == devname:
            first_stamp = _stamp(v)
            break
    for i, (origin, sname, v) in enumerate(stack.router_log):
        a = dict(v[1])
        if first_def is None and first_stamp is not None and origin == "driver" and v[0].startswith("def") and _stamp(v) == first_stamp:
            first_def = i
        if v[0] == "setBLOBVector" and a.get("device") == devname and a.get("name") == vname:
            last_set = i
        if v[0] == "enableBLOB" and a.get("device") == devname and v[2] == "Only":
            last_only = i
    if not (last_set is not None and last_only is not None and last_set < last_only):
        return False
    # the race needs the request to be in flight: if everything in flight was delivered (a point of quiescence) after the
    # clients had learnt of the device and before the update was published, a client that asks when it should had asked
    if first_def is not None and any(first_def < q <= last_set for q in getattr(stack, "quiescent_marks", [])):
        return False
    return True


def _last_def_answers_getproperties(stack, devname, vname):
    """True iff the last definition of this vector the driver emitted was the answer to a getProperties (which carries
    no payload and is not followed by an update), as opposed to a spontaneous (re)definition by the driver."""
    last = None
    for i, (origin, sname, v) in enumerate(stack.router_log):
        if origin == "driver" and v[0] == "defBLOBVector" and dict(v[1]).get("device") == devname and dict(v[1]).get("name") == vname:
            last = i
    return last is not None and stack.router_cause[last] == "getProperties"


def _ever_published(stack, devname, vname):
    return any(v[0] == "setBLOBVector" and dict(v[1]).get("device") == devname and dict(v[1]).get("name") == vname
               for _, _, v in stack.router_log)


def compare_view(sim, who, lib_client, model, scopes, stack, devname, truth, viol, facts, applied=None):
    """Compare one client's view of one device with the truth. Appends violations."""
    spec = stack.specs[devname]
    ctx = f"{who} device={devname}"
    dev = lib_client.get_device(devname)
    in_scope_all = any(d in (None, devname) and n is None for d, n in scopes)
    named = {n for d, n in scopes if d == devname and n is not None}
    if truth["missing_groups"]:
        viol.append({"clause": "C01.missing", "detail": f"{ctx}: driver has no group object for definition attribute(s) {truth['missing_groups']} "
                     f"(inheritance depth {len(spec['levels'])})", "facts": dict(facts, cause="group_not_instantiated")})
        return
    mirror_vecs = set(dev.list_vectors()) if dev else set()
    for vname, tv in truth["vectors"].items():
        wanted = in_scope_all or vname in named
        if tv["enabled"] and wanted and vname not in mirror_vecs:
            viol.append({"clause": "C01.missing", "detail": f"{ctx}: enabled {tv['kind']} vector {vname} not in the mirror (mirror has {sorted(mirror_vecs)})",
                         "facts": dict(facts, kind=tv["kind"])})
            return
    for vname in (dev.list_vectors() if dev else ()):  # (the mirror's own order: deterministic, unlike a set of names)
        tv = truth["vectors"].get(vname)
        if tv is None or not tv["enabled"]:
            viol.append({"clause": "C01.ghost", "detail": f"{ctx}: mirror shows vector {vname} which the driver does not currently expose", "facts": facts})
            return
        mv = dev.get_vector(vname)
        vs = tv["spec"]
        if mv.state != tv["state"] and not (tv["kind"] == "BLOB" and applied is None):
            # (snoopers are Never-clients: the state of a BLOB vector travels in setBLOBVector, which they do not receive)
            f2 = dict(facts, kind=tv["kind"])
            inv = _inversion(applied, devname, vname)
            if inv:
                f2["cross_connection_inversion"] = True
            elif tv["kind"] == "BLOB" and _published_before_only(stack, devname, vname, applied):
                f2["published_before_enableblob_only"] = True
            viol.append({"clause": "C01.state", "detail": f"{ctx}: {vname} state {mv.state!r} but driver has {tv['state']!r}"
                         + (f"; the client applied this vector's messages out of emission order: {inv}" if inv else ""), "facts": f2})
            return
        if _norm(mv.label) != _norm(vs["label"] or vs["name"]) or _norm(mv.group) != _norm(tv["group"]):
            viol.append({"clause": "C01.meta", "detail": f"{ctx}: {vname} label/group {mv.label!r}/{mv.group!r} expected {(vs['label'] or vs['name'])!r}/{tv['group']!r}", "facts": facts})
            return
        t_els = {n: e for n, e in tv["elements"].items() if e["enabled"]}
        m_els = set(mv.list_elements())
        if m_els != set(t_els):
            viol.append({"clause": "C01.elements", "detail": f"{ctx}: {vname} elements {sorted(m_els)} expected {sorted(t_els)}", "facts": facts})
            return
        for en, te in t_els.items():
            me = mv.get_element(en)
            if tv["kind"] == "BLOB":
                tvv = te["value"]
                if me.value is None and tvv is not None and len(tvv.binary) > 0 and applied is not None and getattr(lib_client, "blob_connection_handler", None) is not None:
                    # the device holds a payload the client does not show. Legitimate only through the two INDI races:
                    f2 = dict(facts, kind="BLOB", missing_payload=True)
                    inv = _inversion(applied, devname, vname)
                    if inv:
                        f2["cross_connection_inversion"] = True
                    elif _published_before_only(stack, devname, vname, applied) or not _ever_published(stack, devname, vname):
                        f2["published_before_enableblob_only"] = True
                    elif _last_def_answers_getproperties(stack, devname, vname):
                        f2["redefined_by_getproperties"] = True
                    viol.append({"clause": "C01.value", "detail": f"{ctx}: {vname}.{en}: the device holds a {len(tvv.binary)}-byte BLOB, the client shows none"
                                 + (f"; messages applied out of emission order: {inv}" if inv else ""), "facts": f2})
                    return
                if not blob_matches(me.value, te["value"]):
                    viol.append({"clause": "C01.value", "detail": f"{ctx}: {vname}.{en} BLOB mirror {str(me.value)[:80]!r} is neither unset nor the driver's payload", "facts": dict(facts, kind="BLOB")})
                    return
            else:
                exp = expected_text(tv["kind"], te["value"], te["spec"])
                if _norm(me.value) != exp:
                    viol.append({"clause": "C01.value", "detail": f"{ctx}: {vname}.{en} mirror {me.value!r} expected {exp!r} (driver value {te['value']!r})", "facts": dict(facts, kind=tv["kind"])})
                    return
                if tv["kind"] == "Number" and V.denotes(_norm(me.value), te["value"], te["spec"]["format"]) is False:
                    viol.append({"clause": "C01.value", "detail": f"{ctx}: {vname}.{en} (format {te['spec']['format']}) shows {me.value!r}, which does not denote the driver's value {te['value']!r}", "facts": dict(facts, kind="Number", numeric=True)})
                    return
            if _norm(me.label) != _norm(te["spec"]["label"] or te["spec"]["name"]):
                viol.append({"clause": "C01.meta", "detail": f"{ctx}: {vname}.{en} label {me.label!r} expected {te['spec']['label'] or te['spec']['name']!r}", "facts": facts})
                return
        # metadata the library client drops: checked on the reference mirror fed with the same messages
        if model is not None:
            mvec = model.devices.get(devname, {}).get(vname)
            if mvec is not None:
                a = mvec.attrs
                exp_meta = {}
                if vs["kind"] != "Light":
                    exp_meta["perm"] = vs["perm"]
                    exp_meta["timeout"] = str(vs["timeout"])
                if vs["kind"] == "Switch":
                    exp_meta["rule"] = vs["rule"]
                for k, val in exp_meta.items():
                    if a.get(k) != val:
                        viol.append({"clause": "C01.meta", "detail": f"{ctx}: {vname} {k}={a.get(k)!r} on the wire, definition says {val!r}", "facts": facts})
                        return
                if vs["kind"] == "Number":
                    for en, te in t_els.items():
                        ea = mvec.elements[en].attrs if en in mvec.elements else {}
                        es = te["spec"]
                        want = {"format": es["format"], "step": str(es["step"])}
                        if es["min"] is not None:
                            want["min"] = str(es["min"])
                        if es["max"] is not None:
                            want["max"] = str(es["max"])
                        for k, val in want.items():
                            if ea.get(k) != val:
                                viol.append({"clause": "C01.meta", "detail": f"{ctx}: {vname}.{en} {k}={ea.get(k)!r} on the wire, definition says {val!r}", "facts": facts})
                                return


def check_initial_state(stack, viol, facts, skip=()):
    """Before any operation the driver holds what its definition declares (defaults, default_on, states, enable flags).
    skip: (device, vector, element) triples whose value is supplied by a Read handler of the scenario."""
    for dname in stack.drivers:
        t = stack.truth(dname)
        if t["missing_groups"]:
            continue  # reported by the view comparison
        for vname, tv in t["vectors"].items():
            vs = tv["spec"]
            if tv["state"] != vs["state"]:
                viol.append({"clause": "C01.state", "detail": f"device {dname}: {vname} starts in state {tv['state']!r}, its definition says {vs['state']!r}", "facts": facts})
                return
            for en, te in tv["elements"].items():
                want = G.default_value(vs["kind"], te["spec"], vs)
                got = te["value"]
                if vs["kind"] == "Text":
                    got, want = got or "", want or ""
                if (dname, vname, en) in skip:
                    continue
                if got != want:
                    viol.append({"clause": "C01.value", "detail": f"device {dname}: {vname}.{en} starts with {got!r}, its definition says {want!r}"
                                 + (f" (default_on={vs['default_on']!r}, sibling names {sorted(tv['elements'])})" if vs["kind"] == "Switch" else ""),
                                 "facts": dict(facts, kind=vs["kind"], initial=True)})
                    return


def check_all(sim, stack, viol, facts):
    names = set(stack.drivers)
    truths = {d: stack.truth(d) for d in stack.drivers}
    viewers = []
    for node in stack.clients:
        if node.started:
            viewers.append((node.name, node.client, node.model, node.handshakes, node.applied))
    for dname, drv in stack.drivers.items():
        sc = drv._snooping_client
        if sc is not None:
            viewers.append((f"snooper-of-{dname}", sc, None, getattr(sc, "_verif_scopes", []), None))
    for who, cl, model, scopes, applied in viewers:
        for devname in list(cl.list_devices()):
            if devname not in names:
                viol.append({"clause": "C01.ghost", "detail": f"{who}: mirror shows device {devname!r} which does not exist", "facts": facts})
                return
        for devname in stack.drivers:
            if viol:
                return
            compare_view(sim, who, cl, model, scopes, stack, devname, truths[devname], viol, facts, applied)


def execute(scen):
    net = scen["net"]
    cfg = NetConfig(latency=net["latency"], frag_default=net["frag"], hwm=net["hwm"])
    viol = []
    soft = []
    probes = {}
    facts = {"latency": net["latency"], "frag": net["frag"]}
    judged = 0
    changed = False
    with Sim(scen["seed"], cfg, PoolConfig(), tie_shuffle=scen.get("tie_shuffle", False)) as sim:
        stack = Stack(sim, scen["devices"])
        for _ in range(scen["nclients"]):
            stack.add_client(start=False)
        oversize = [False]

        def size_hook(origin, sender, message):
            if origin == "driver" and not oversize[0]:
                try:
                    if len(message.to_string()) > 2000:
                        oversize[0] = True
                except Exception:
                    pass

        stack.hooks.append(size_hook)
        check_initial_state(stack, viol, facts)
        depth = max(len(s["levels"]) for s in scen["devices"])
        if depth == 3:
            probes["inheritance_depth_3"] = 1

        def judge():
            nonlocal judged
            if oversize[0]:
                probes["oversize_skip"] = 1
                return
            if watchdog.S.tripped:
                viol.append({"clause": "C01.raise", "detail": f"watchdog: {watchdog.S.tripped}", "facts": facts})
                return
            esc = stack.escaped()
            if esc:
                viol.append({"clause": "C01.raise", "detail": "; ".join(esc)[:600], "facts": facts})
                return
            if any(n.started for n in stack.clients):
                check_all(sim, stack, viol, facts)
                judged += 1
                # violations carrying one of the INDI-race markers (candidates for the known findings K01-K06) do not end the
                # run: they are reported at the end, and the rest of the history is still judged
                for v in list(viol):
                    if any(v["facts"].get(k) for k in ("cross_connection_inversion", "published_before_enableblob_only", "redefined_by_getproperties")):
                        viol.remove(v)
                        if len(soft) < 3:
                            soft.append(v)

        for st in scen["steps"]:
            if viol:
                break
            op = st["op"]
            if op == "settle":
                sim.settle()
                judge()
            elif op == "gap":
                sim.gap(st)
            elif op == "stall":
                try:
                    ct, srv = sim.net.find(st["conn"])
                except KeyError:
                    continue
                pipe = ct.out if st["dir"] == "up" else ct.inp
                sim.do(pipe.stall, st["dt"])
                probes["temporary_stall"] = probes.get("temporary_stall", 0) + 1
            else:
                res = apply_step(stack, st)
                if op == "snoop" and res.ok:
                    sc = stack.drivers[st["drv"]]._snooping_client
                    if not hasattr(sc, "_verif_scopes"):
                        sc._verif_scopes = []
                    sc._verif_scopes.append((st["device"], st.get("name")))
                    probes["snoop"] = probes.get("snoop", 0) + 1
                if res.error:
                    probes["op_raised:" + op] = probes.get("op_raised:" + op, 0) + 1
                    sim.log("scenario", "op_error", f"{op}: {res.error}")
                elif res.skipped:
                    probes["op_skipped:" + op] = probes.get("op_skipped:" + op, 0) + 1
                elif op.startswith(("d_", "c_write")):
                    changed = True
                    if op == "d_genable" and st["value"]:
                        probes["group_reenabled"] = probes.get("group_reenabled", 0) + 1
        if not viol:
            sim.settle()
            judge()
        for k in ("pause_writing",):
            if sim.net.counters.get(k):
                probes[k] = sim.net.counters[k]
        if stack.reparse_failures:
            probes["reparse_failures_seen"] = len(stack.reparse_failures)
        digest = sim.digest()
        vtime, steps = sim.loop.time(), sim.loop.steps
    kinds = sorted({v["kind"] for s in scen["devices"] for g in G.effective_groups(s).values() for v in g["vectors"].values()})
    ops = sorted({s["op"] for s in scen["steps"]})
    sig = repr((ops, kinds, net["latency"], net["frag"], net["hwm"], depth, scen["nclients"], len(scen["devices"])))
    faults = {"temporary_stall": probes.pop("temporary_stall")} if "temporary_stall" in probes else {}
    return {"violations": viol + soft, "digest": digest, "probes": probes, "faults": faults, "steps": steps, "vtime": vtime, "sig": sig,
            "nontrivial": judged > 0 and changed,
            "sample": {"devices": [s["name"] for s in scen["devices"]], "net": net, "steps": scen["steps"][:12]}}


def simplify(scen):
    for k, v in (("latency", "zero"), ("frag", "whole"), ("hwm", 65536)):
        if scen["net"][k] != v:
            c = copy.deepcopy(scen)
            c["net"][k] = v
            yield c
    if scen["nclients"] > 1:
        c = copy.deepcopy(scen)
        c["nclients"] = 1
        yield c
    # prune devices no step refers to
    used = {s.get("dev") for s in scen["steps"]} | {s.get("device") for s in scen["steps"]} | {s.get("drv") for s in scen["steps"]}
    if len(scen["devices"]) > 1:
        for i, d in enumerate(scen["devices"]):
            if d["name"] not in used:
                c = copy.deepcopy(scen)
                del c["devices"][i]
                yield c
    # prune vectors / groups no step refers to
    usedv = {s.get("vec") for s in scen["steps"]} | {s.get("name") for s in scen["steps"]}
    for di, d in enumerate(scen["devices"]):
        for li, lvl in enumerate(d["levels"]):
            for ga, g in lvl["groups"].items():
                if len(lvl["groups"]) > 1 or len(d["levels"]) > 1:
                    if not any(v["name"] in usedv for v in g["vectors"].values()):
                        c = copy.deepcopy(scen)
                        del c["devices"][di]["levels"][li]["groups"][ga]
                        if any(l["groups"] for l in c["devices"][di]["levels"]):
                            yield c
                for va, v in g["vectors"].items():
                    if len(g["vectors"]) > 1 and v["name"] not in usedv:
                        c = copy.deepcopy(scen)
                        del c["devices"][di]["levels"][li]["groups"][ga]["vectors"][va]
                        yield c
