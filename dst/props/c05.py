"""C05 - see _router.py (shared executor) and DESIGN.md section 5."""
from . import _router

ID = "C05"
LEVEL = "exploration"
TECHNIQUE = "deterministic simulation: seeded membership/traffic histories (connect, disconnect, reset, reconnect, enableBLOB, sends) against a reference router model, call by call; level 2 through real TCP handlers on a simulated fragmented network"
RULE = ("scenario = history of register/unregister/re-register/enableBLOB/send operations; level 1 on the real Router with recording "
        "endpoints (silent, raising, or answering synchronously from inside the router call) and real Drivers, level 2 through real TCP connection handlers where registration is a connect and unregistration a "
        "close/reset at a seeded instant; every Router.process_message call is compared with RouterModel; distinct = different signature "
        "(level, message kinds routed, number of abstract router states visited, probes hit); non-trivial = at least 2 router calls "
        "across at least 2 distinct abstract router states")
COMPONENTS = {
    "real": ["indi.routing.Router", "indi.message classes and parser", "indi.device.Driver (level 1)",
             "indi.transport.server.tcp (TCP.start, ConnectionHandler), Buffer, asyncio streams (level 2)"],
    "stub": ["recording Device/Client endpoints", "raw TCP peers", "SimLoop / SimNet"],
}
ASSUMPTIONS = [
    "double registration of one object and a device registering as a client of itself are outside the property (not generated, except the Proxy-like endpoint that is both, registered once in each role)",
    "enableBLOB from an unregistered sender belongs to C12 and is not generated here",
    "order among devices / among clients within one fan-out is not demanded",
]
QUICK_RUNS = 20000
QUICK_BUDGET_S = 120
THOROUGH_BUDGET_S = 360
CHUNK = 100
STEP_KEYS = ("steps",)


def generate(seed, tier, index):
    return _router.generate(seed, tier, index, "C05")


def execute(scen):
    return _router.execute(scen)


def simplify(scen):
    import copy
    if scen["level"] == 2:
        for k, v in (("latency", "zero"), ("frag", "whole"), ("hwm", 65536)):
            if scen["net"][k] != v:
                c = copy.deepcopy(scen)
                c["net"][k] = v
                yield c
