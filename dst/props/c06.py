"""C06 - a client's write changes exactly the addressed element, to the value sent."""
from __future__ import annotations

import copy
import random

from ..env import Sim
from ..gen import drivers as G
from ..gen import values as V
from ..ref.device_model import apply_switch_write
from ..simnet import NetConfig
from ..simpool import PoolConfig
from ..worlds.ops import apply_step
from ..worlds.stack import Stack
from .. import watchdog
from . import c01

ID = "C06"
LEVEL = "exploration"
TECHNIQUE = "deterministic simulation of isolated write episodes through the real client API, serializer, fragmented simulated network, server handler, framing, router and driver; before/after snapshots of every element of every device against INDI write semantics"
RULE = ("scenario = generated multi-device deployment x sequence of write episodes (settle, snapshot, one client assigns values to a non-empty "
        "element subset of one writable property and submits, settle, snapshot), optionally doubled by a write to the same-named property of a twin device, optionally separated by history (re-handshake, property/group off and on) x network knobs; distinct = different signature (vector "
        "kind, rule, number format class, subset size, net knobs, #devices); non-trivial = at least one episode whose message reached the driver")
COMPONENTS = c01.COMPONENTS
ASSUMPTIONS = [
    "no driver-side operation is scheduled inside an episode (otherwise a change could not be attributed)",
    "numbers are written in plain decimal for printf formats and in the format's own sexagesimal shape for m formats; the value a text denotes follows INDI conventions (the sign applies to the whole magnitude); tolerance = half the format's resolution",
    "only rw/wo properties are written; BLOB payloads stay small enough for the 2048-character server-side threshold (big uploads are C08)",
]
QUICK_RUNS = 1500
QUICK_BUDGET_S = 150
THOROUGH_BUDGET_S = 360
CHUNK = 25
STEP_KEYS = ("steps",)


def _writable(specs):
    out = []
    for s in specs:
        for g in G.effective_groups(s).values():
            for v in g["vectors"].values():
                if v["kind"] != "Light" and v["perm"] != "ro" and v["enabled"] and g["enabled"]:
                    out.append((s["name"], v))
    return out


def generate(seed, tier, index):
    rng = random.Random(seed)
    thorough = tier == "thorough"
    G.SPICY_NAMES[0] = rng.random() < 0.2  # property / element / group names with blanks, markup and non-ASCII characters
    ndev = rng.choice([1, 2, 2, 3])
    specs = []
    for i in range(ndev):
        while True:
            s = G.gen_device(rng, f"DEV{i}", kinds=["Text", "Number", "Switch", "BLOB", "Light"], spicy=rng.random() < 0.5,
                             max_depth=2, all_min_max=True)
            specs.append(s)
            break
    twin = ndev >= 2 and rng.random() < 0.3
    if twin:
        del specs[1]
    # make sure something is writable
    tries = 0
    while not _writable(specs) and tries < 20:
        specs[0] = G.gen_device(rng, "DEV0", kinds=["Text", "Number", "Switch", "BLOB"], spicy=False, max_depth=1)
        for g in G.effective_groups(specs[0]).values():
            g["enabled"] = True
            for v in g["vectors"].values():
                v["enabled"] = True
                v["perm"] = "rw"
        tries += 1
    if twin:
        # two instances of one driver class (made from the final DEV0: a twin of a discarded draft would share DEV0's class
        # and its class-level name while the scenario describes something else)
        specs.insert(1, G.clone_as_second_instance(specs[0], "DEV1"))
    nclients = rng.choice([1, 1, 2])
    tty = rng.random() < 0.3
    steps = [{"op": "start_client", "c": c} for c in range(nclients)]
    all_vecs = [(sp["name"], g["name"], v) for sp in specs for g in G.effective_groups(sp).values() for v in g["vectors"].values()]
    revealed = set()  # (device, vector, element) hidden by definition, shown by the driver at run time
    for _ in range(rng.randint(1, 10 if thorough else 5)):
        if rng.random() < 0.35:
            # history between two episodes (each episode starts from quiescence): properties and groups switched off and on
            # at run time, another handshake of a client - none of which may change what a later write does
            dn, gn, hv = rng.choice(all_vecs)
            r = rng.random()
            if r < 0.4:
                steps.append({"op": "c_handshake", "c": rng.randrange(nclients), "device": rng.choice([None, dn]), "name": None})
            elif r < 0.8:
                steps.append({"op": "d_venable", "dev": dn, "vec": hv["name"], "value": rng.random() < 0.5})
            else:
                steps.append({"op": "d_genable", "dev": dn, "group": gn, "value": rng.random() < 0.5})
        hidden = [(dn, v_, e_) for dn, v_ in _writable(specs) for e_ in v_["elements"].values()
                  if not e_["enabled"] and (dn, v_["name"], e_["name"]) not in revealed]
        if hidden and rng.random() < 0.25:
            # the driver shows a member of a property that was hidden when the clients first saw the property; the clients
            # learn of it through a repeated definition (a further handshake), and the next episode may write it
            dn, v_, e_ = rng.choice(hidden)
            steps.append({"op": "d_eenable", "dev": dn, "vec": v_["name"], "el": e_["name"], "value": True})
            steps.append({"op": "c_handshake", "c": rng.randrange(nclients), "device": dn, "name": rng.choice([None, v_["name"]])})
            revealed.add((dn, v_["name"], e_["name"]))
            d, v = dn, v_
        else:
            d, v = rng.choice(_writable(specs))
        els = [e for e in v["elements"].values() if e["enabled"] or (d, v["name"], e["name"]) in revealed]
        if not els:
            continue
        chosen = rng.sample(els, rng.randint(1, len(els)))
        if v["kind"] == "Switch" and rng.random() < 0.5:
            chosen = [rng.choice(els)]
        pairs = []
        for e in chosen:
            if v["kind"] == "Number":
                txt, val = V.client_number(rng, e["format"])
                pairs.append([e["name"], txt, val])
            elif v["kind"] == "Text":
                pairs.append([e["name"], V.rand_text(rng, maxlen=24), None])
            elif v["kind"] == "Switch":
                pairs.append([e["name"], rng.choice(["On", "Off"]), None])
            else:
                n = rng.choice([0, 1, 2, 3, 17, 100, 300])
                if len(chosen) == 1 and not G.SPICY_NAMES[0] and rng.random() < 0.4:
                    # as large as one upload may be below the server's 2048-character limit: the update that comes back carries
                    # every member of the property, i.e. it is a good deal longer than what was sent
                    n = rng.choice([700, 1000, 1200])
                pairs.append([e["name"], {"blob_hex": bytes(rng.randrange(256) for _ in range(n)).hex(),
                                          "format": rng.choice([".fits", ".jpg", "", ".x\xe9"])}, None])
        if v["kind"] == "BLOB":
            # the whole newBLOBVector has to stay below the server's 2048-character limit (uploads beyond it are C08's
            # known finding K03): shrink the largest members until the estimate fits
            def est(ps):
                return 160 + len(d) + len(v["name"]) * 6 + sum(90 + len(p[0]) * 6 + 4 * ((len(p[1]["blob_hex"]) // 2 + 2) // 3) for p in ps)
            while est(pairs) > 1900:
                big_ = max(pairs, key=lambda p: len(p[1]["blob_hex"]))
                big_[1]["blob_hex"] = big_[1]["blob_hex"][: (len(big_[1]["blob_hex"]) // 4) * 2]
        step = {"op": "write", "c": rng.randrange(nclients), "dev": d, "vec": v["name"], "els": pairs}
        if tty and v["kind"] == "Text" and rng.random() < 0.6:
            step["via"] = "tty"
            for p_ in pairs:
                if rng.random() < 0.5:
                    p_[1] = rng.choice(["para one\n\npara two", "a\n   \nb", "first\nsecond", "x\n\n\ny"])
        if v["kind"] in ("Switch", "Text") and len(els) >= 2 and rng.random() < 0.3:
            # a second submit on the same property by the same client, issued before the answer to the first can have arrived
            e2 = rng.choice(els)
            step["then"] = [[e2["name"], rng.choice(["On", "Off"]) if v["kind"] == "Switch" else V.rand_text(rng, maxlen=10), None]]
            step["then_gap"] = rng.choice([0, 0, 1, 2])
        elif twin and d in ("DEV0", "DEV1") and v["kind"] in ("Text", "Number") and rng.random() < 0.5:
            # the same-named property of the twin device (second instance of the same driver class) is written right behind,
            # before anything about the first write can have come back: both updates are in flight to the client together
            pairs2 = []
            for e in rng.sample(els, rng.randint(1, len(els))):
                if v["kind"] == "Number":
                    txt, val = V.client_number(rng, e["format"])
                    pairs2.append([e["name"], txt, val])
                else:
                    pairs2.append([e["name"], V.rand_text(rng, maxlen=12), None])
            step["twin"] = {"dev": "DEV1" if d == "DEV0" else "DEV0", "els": pairs2, "gap": rng.choice([0, 0, 1, 2])}
        if step.get("via") == "tty":
            step.pop("then", None)
            step.pop("twin", None)
        steps.append(step)
    net = {"latency": rng.choice(["zero", "lan", "slow", "bursty", "skew"]),
           "frag": rng.choice(["whole", "fixed:1", "fixed:7", "fixed:64", "random", "random", "coalesce"]),
           "hwm": rng.choice([0, 64, 65536])}
    return {"devices": specs, "nclients": nclients, "steps": steps, "net": net, "seed": rng.randrange(1 << 30), "tty": tty}


def snapshot(stack):
    snap = {}
    for d in stack.drivers:
        t = stack.truth(d)
        for vname, tv in t["vectors"].items():
            for en, e in tv["elements"].items():
                val = e["value"]
                if tv["kind"] == "BLOB" and val is not None:
                    val = (bytes(val.binary), val.format)
                snap[(d, vname, en)] = val
            snap[(d, vname, "#state")] = tv["state"]
            snap[(d, vname, "#enabled")] = tv["enabled"]
    return snap


def _num_close(a, b, tol):
    try:
        return abs(float(a) - float(b)) <= tol
    except Exception:
        return False


def execute(scen):
    net = scen["net"]
    cfg = NetConfig(latency=net["latency"], frag_default=net["frag"], hwm=net["hwm"])
    viol, probes = [], {}
    facts = {"latency": net["latency"], "frag": net["frag"]}
    reached = 0
    sigparts = set()
    with Sim(scen["seed"], cfg, PoolConfig()) as sim:
        stack = Stack(sim, scen["devices"], with_tty=bool(scen.get("tty")))
        for _ in range(scen["nclients"]):
            stack.add_client(start=False)
        for st in scen["steps"]:
            if viol:
                break
            if st["op"] == "start_client":
                apply_step(stack, st)
                continue
            if st["op"] != "write":
                sim.settle()
                apply_step(stack, st)
                probes["history_between_episodes:" + st["op"]] = probes.get("history_between_episodes:" + st["op"], 0) + 1
                continue
            sim.settle()
            before = snapshot(stack)
            vec, vspec = stack.vec_obj(st["dev"], st["vec"])
            nrouted = len(stack.router_log)
            if st.get("via") == "tty":
                # the write arrives on the line-oriented TTY channel (a peer driving the drivers through stdin), spelled by the
                # harness; a multi-line value is several input lines, some of them possibly blank
                from xml.sax.saxutils import escape, quoteattr
                kids = "".join(f"<oneText name={quoteattr(n)}>{escape(v or '')}</oneText>" for n, v, _ in st["els"])
                xml = f"<newTextVector device={quoteattr(st['dev'])} name={quoteattr(st['vec'])}>{kids}</newTextVector>\n"
                stack.stdin_file.feed(xml)
                probes["write_over_the_tty_channel"] = probes.get("write_over_the_tty_channel", 0) + 1
                from ..worlds.ops import OpResult
                res = OpResult(True)
            else:
                res = apply_step(stack, {"op": "c_write", "c": st["c"], "dev": st["dev"], "vec": st["vec"],
                                         "els": [[n, v] for n, v, _ in st["els"]]})
            kind = vspec["kind"]
            if st.get("then") and not res.skipped and not res.error:
                if st.get("then_gap"):
                    sim.loop.step_iterations(st["then_gap"])
                res2 = apply_step(stack, {"op": "c_write", "c": st["c"], "dev": st["dev"], "vec": st["vec"],
                                          "els": [[n, v] for n, v, _ in st["then"]]})
                if res2.error:
                    res = res2
                probes["second_submit_before_answer"] = probes.get("second_submit_before_answer", 0) + 1
            tw = st.get("twin")
            if tw and not res.skipped and not res.error:
                if tw.get("gap"):
                    sim.loop.step_iterations(tw["gap"])
                res3 = apply_step(stack, {"op": "c_write", "c": st["c"], "dev": tw["dev"], "vec": st["vec"], "els": [[n, v] for n, v, _ in tw["els"]]})
                if res3.error:
                    res = res3
                elif res3.skipped:
                    tw = None
                else:
                    probes["same_named_property_of_twin_written_right_behind"] = probes.get("same_named_property_of_twin_written_right_behind", 0) + 1
            f2 = dict(facts, kind=kind)
            ctx = f"write {st['dev']}.{st['vec']} {[(n, (v if not isinstance(v, dict) else 'BLOB[%d]' % (len(v['blob_hex']) // 2))) for n, v, _ in st['els']]}"
            if res.skipped:
                probes["episode_skipped"] = probes.get("episode_skipped", 0) + 1
                continue
            if res.error:
                viol.append({"clause": "C06.raise", "detail": f"client API raised {res.error}; {ctx}", "facts": f2})
                break
            sim.settle()
            if watchdog.S.tripped:
                viol.append({"clause": "C06.raise", "detail": f"watchdog: {watchdog.S.tripped}", "facts": f2})
                break
            esc = stack.escaped()
            if esc:
                viol.append({"clause": "C06.raise", "detail": "; ".join(esc)[:500] + "; " + ctx, "facts": f2})
                break
            if server_closed(stack):
                viol.append({"clause": "C06.raise", "detail": f"the server closed the writing connection while handling: {ctx}", "facts": f2})
                break
            after = snapshot(stack)
            reached += 1
            sigparts.add((kind, vspec.get("rule"), len(st["els"])))
            # prediction
            expected = dict(before)
            if kind == "Switch":
                names = list(vspec["elements"].values())
                cur = {e["name"]: before[(st["dev"], st["vec"], e["name"])] for e in names}
                # the client API sends the assigned elements in definition order (one child per element)
                order = [e["name"] for e in names]
                sent = sorted({n: v for n, v, _ in st["els"]}.items(), key=lambda nv: order.index(nv[0]))
                new = apply_switch_write(vspec["rule"], cur, sent)
                if st.get("then"):
                    new = apply_switch_write(vspec["rule"], new, [(n, v) for n, v, _ in st["then"]])
                for n, v in new.items():
                    expected[(st["dev"], st["vec"], n)] = v
            addressed = {n for n, _, _ in st["els"]} | {n for n, _, _ in st.get("then", [])}
            for key in before:
                d, vn, en = key
                if en.startswith("#"):
                    if after[key] != before[key] and not (en == "#state"):
                        viol.append({"clause": "C06.target", "detail": f"{key} changed {before[key]!r} -> {after[key]!r}; {ctx}", "facts": f2})
                        break
                    continue
                is_addr = (d == st["dev"] and vn == st["vec"] and en in addressed) or (
                    tw is not None and d == tw["dev"] and vn == st["vec"] and en in {n for n, _, _ in tw["els"]})
                if not is_addr:
                    if after[key] != expected[key]:
                        viol.append({"clause": "C06.target", "detail": f"unaddressed element {key} changed {before[key]!r} -> {after[key]!r} (expected {expected[key]!r}); {ctx}", "facts": f2})
                        break
                    continue
            if viol:
                break
            # addressed values (last occurrence of a name wins)
            last = {}
            for n, v, num in list(st["els"]) + list(st.get("then", [])):
                last[(st["dev"], n)] = (v, num)
            for n, v, num in (tw["els"] if tw else []):
                last[(tw["dev"], n)] = (v, num)
            for (wd, n), (v, num) in last.items():
                got = after[(wd, st["vec"], n)]
                if kind == "Text":
                    if (got or "") != (v or ""):
                        viol.append({"clause": "C06.value", "detail": f"{n} holds {got!r}, submitted {v!r}; {ctx}", "facts": f2})
                elif kind == "Switch":
                    exp = expected[(st["dev"], st["vec"], n)]
                    if got != exp:
                        viol.append({"clause": "C06.value", "detail": f"switch {n} is {got!r}, rule {vspec['rule']} predicts {exp!r}; {ctx}", "facts": f2})
                elif kind == "Number":
                    fmt = [e for e in vspec["elements"].values() if e["name"] == n][0]["format"]
                    tol = V.sexa_resolution(fmt) / 2 if V.is_sexa(fmt) else 1e-9 * max(1.0, abs(num))
                    if isinstance(num, int) and not isinstance(num, bool):
                        # written as an integer beyond the floats' exact range: held digit for digit (int / float compare exactly)
                        close = got == num
                    else:
                        close = _num_close(got, num, tol + 1e-12)
                    if not close:
                        neg = isinstance(v, str) and v.startswith("-")
                        viol.append({"clause": "C06.value", "detail": f"number {n} (format {fmt}) holds {got!r}, text {v!r} denotes {num!r}; {ctx}",
                                     "facts": dict(f2, sexagesimal=V.is_sexa(fmt), negative=neg)})
                else:
                    exp = (bytes.fromhex(v["blob_hex"]), v["format"])
                    if got != exp:
                        viol.append({"clause": "C06.value", "detail": f"BLOB {n} holds {str(got)[:80]!r}, submitted {len(exp[0])} bytes format {exp[1]!r}; {ctx}", "facts": f2})
                if viol:
                    break
            if viol:
                break
            if st.get("via") == "tty":
                continue  # (the TTY peer keeps no mirror to compare)
            # the client's own view
            node = stack.clients[st["c"] % len(stack.clients)]
            v2 = []
            truth = stack.truth(st["dev"])
            c01.compare_view(sim, node.name, node.client, node.model, node.handshakes, stack, st["dev"], truth, v2, f2, node.applied)
            if tw and not v2:
                c01.compare_view(sim, node.name, node.client, node.model, node.handshakes, stack, tw["dev"], stack.truth(tw["dev"]), v2, f2, node.applied)
            for x in v2:
                fx = x["facts"]
                if fx.get("kind") == "BLOB" and (x["clause"] == "C01.state" or (fx.get("missing_payload") and (
                        fx.get("cross_connection_inversion") or fx.get("published_before_enableblob_only") or fx.get("redefined_by_getproperties")))):
                    continue  # BLOB vector state / payload presence across the two connections' races is C01's known territory (K01-K06)
                x = dict(x, clause="C06.view", detail=x["detail"] + "; after " + ctx)
                viol.append(x)
                break
        digest = sim.digest()
        vtime, steps = sim.loop.time(), sim.loop.steps
    sig = repr((sorted(map(str, sigparts)), net["latency"], net["frag"], net["hwm"], len(scen["devices"])))
    return {"violations": viol, "digest": digest, "probes": probes, "faults": {}, "steps": steps, "vtime": vtime, "sig": sig,
            "nontrivial": reached > 0, "sample": {"net": net, "steps": scen["steps"][:6]}}


def server_closed(stack):
    """True if a started client's connections are no longer among the server's handlers."""
    from indi.transport.server import tcp as server_tcp
    want = 2 * sum(1 for n in stack.clients if n.started)
    return len(server_tcp.ConnectionHandler.connections) < want


simplify = c01.simplify
