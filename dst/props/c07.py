"""C07 - getProperties is answered with exactly the definitions asked for; every emitted message re-parses."""
from __future__ import annotations

import copy
import random

from indi.device.values import num_to_str

from ..env import Sim
from ..gen import drivers as G
from ..gen import values as V
from ..ref.device_model import expected_defs
from ..ref.structural import view_of_message
from ..simnet import NetConfig
from ..simpool import PoolConfig
from ..worlds.ops import apply_step
from ..worlds.stack import Stack
from .. import watchdog
from . import c01

ID = "C07"
LEVEL = "exploration"
TECHNIQUE = "deterministic simulation: getProperties requests from a real client over the fragmented simulated wire at random points of driver-state histories; emitted definitions (router tap) compared with the driver's state; re-parse monitor on every message any driver emits"
RULE = ("scenario = generated deployment (numbers with both, one or no limit declared) x history of driver-side operations (values, states, vector/group/element enable flips, BLOB set) "
        "with getProperties(device in {existing, other, unknown, absent}, name in {enabled, disabled, unknown, absent}) requests at seeded "
        "points x network knobs; distinct = different signature (request classes used, vector kinds, ops used, net knobs); non-trivial = "
        "at least one request judged after at least one driver-side state change")
COMPONENTS = c01.COMPONENTS
ASSUMPTIONS = [
    "requests are judged at quiescence, with no other operation between the request and the judgement",
    "number values in definitions are compared with the library's own rendering (rendering conventions are C10)",
    "delProperty replies for disabled properties are allowed (the property constrains definitions only)",
    "property names are only given together with a device name",
]
QUICK_RUNS = 1000
QUICK_BUDGET_S = 150
THOROUGH_BUDGET_S = 360
CHUNK = 25
STEP_KEYS = ("steps",)


def generate(seed, tier, index):
    rng = random.Random(seed)
    thorough = tier == "thorough"
    G.SPICY_NAMES[0] = rng.random() < 0.2  # property / element / group names with blanks, markup and non-ASCII characters
    ndev = rng.choice([1, 2, 2, 3])
    specs = [G.gen_device(rng, f"DEV{i}", kinds=c01.KINDS, spicy=rng.random() < 0.6, max_depth=3, all_min_max=rng.random() < 0.5)
             for i in range(ndev)]
    if ndev >= 2 and rng.random() < 0.3:
        specs[1] = G.clone_as_second_instance(specs[0], "DEV1")  # two instances of one driver class
    elif ndev >= 2 and rng.random() < 0.3 and len(specs[0]["levels"]) <= 2:
        specs[1] = G.derive_family_member(rng, specs[0], "DEV1", c01.KINDS)  # base driver and a subclass of it on one router
    vecs, els, groups = c01._targets(specs)
    steps = [{"op": "start_client", "c": 0}]
    n = rng.randint(2, 30 if thorough else 12)
    for _ in range(n):
        r = rng.random()
        if r < 0.35:
            dev = rng.choice([None, None, "NOPE"] + [s["name"] for s in specs] * 2)
            name = None
            if dev not in (None,) and rng.random() < 0.6:
                cands = [v["name"] for d, v in vecs if d == dev]
                name = rng.choice(cands + ["NOPE"]) if cands else "NOPE"
            elif dev is None and rng.random() < 0.35:
                # a property name without a device name: every device answers with that property only, if it has one
                name = rng.choice([v["name"] for d, v in vecs] + ["NOPE"])
            steps.append({"op": "getprops", "c": 0, "device": dev, "name": name})
        elif r < 0.45:
            d, v, e = rng.choice(els)
            steps.append({"op": "d_eenable", "dev": d, "vec": v["name"], "el": e["name"], "value": rng.random() < 0.5})
        else:
            steps += c01.gen_steps(rng, specs, 1, 1, client_ops=False)
    net = {"latency": rng.choice(["zero", "lan", "slow", "bursty"]),
           "frag": rng.choice(["whole", "fixed:1", "fixed:7", "fixed:64", "random", "coalesce"]),
           "hwm": rng.choice([0, 64, 65536])}
    reactive = None
    if rng.random() < 0.3:
        # an in-process client (a snooping driver, a script) that answers the definition of one property by writing another
        # one at once - i.e. while the driver is still in the middle of answering the getProperties
        wr = [(d, v) for d, v in vecs if v["kind"] in ("Text", "Number", "Switch") and v["perm"] != "ro"]
        if wr:
            d, tgt = rng.choice(wr)
            trig = rng.choice([v for dd, v in vecs if dd == d])
            e = rng.choice(list(tgt["elements"].values()))
            reactive = {"dev": d, "trigger": trig["name"], "target": tgt["name"], "el": e["name"], "kind": tgt["kind"],
                        "sexa": tgt["kind"] == "Number" and V.is_sexa(e["format"])}
    read_number = None
    if rng.random() < 0.3 and not any(sp.get("class_of") or sp.get("subclass_of") for sp in specs):
        # (not with driver families: handlers belong to the class, a twin or a subclass would share them)
        # a number whose value lives in the hardware: a plain Read handler fetches it (reset_value) whenever the element is read,
        # and the hardware value moves between requests
        cands = []
        for sp in specs:
            if sp.get("class_of") or sp.get("subclass_of"):
                continue
            for ga, g in sp["levels"][-1]["groups"].items():
                for va, v in g["vectors"].items():
                    if v["kind"] == "Number":
                        for ea, e in v["elements"].items():
                            if not V.is_sexa(e["format"]):
                                cands.append({"dev": sp["name"], "g": ga, "v": va, "e": ea, "vec": v["name"], "el": e["name"], "format": e["format"]})
        if cands:
            read_number = rng.choice(cands)
    return {"devices": specs, "nclients": 1, "steps": steps, "net": net, "seed": rng.randrange(1 << 30), "reactive": reactive,
            "read_number": read_number}


def _n(t):
    if t is None:
        return None
    t = str(t).strip()
    return t or None


def check_def(view, exp, devname, viol, facts, ctx):
    tag, attrs, text, kids = view
    a = dict(attrs)
    tv = exp["truth"]
    vs = tv["spec"]
    want = {"device": devname, "name": vs["name"], "group": tv["group"], "label": vs["label"] or vs["name"], "state": tv["state"]}
    if vs["kind"] != "Light":
        want["perm"] = vs["perm"]
        want["timeout"] = str(vs["timeout"])
    if vs["kind"] == "Switch":
        want["rule"] = vs["rule"]
    for k, val in want.items():
        if _n(a.get(k)) != _n(val):
            viol.append({"clause": "C07.members", "detail": f"{tag} {vs['name']}: {k}={a.get(k)!r}, driver/definition says {val!r}; {ctx}", "facts": facts})
            return
    names = [dict(k[1]).get("name") for k in kids]
    if sorted(names) != sorted(exp["elements"]):
        viol.append({"clause": "C07.members", "detail": f"{tag} {vs['name']} lists elements {names}, enabled elements are {exp['elements']}; {ctx}", "facts": facts})
        return
    for ktag, kattrs, ktext, _ in kids:
        ka = dict(kattrs)
        te = tv["elements"][ka["name"]]
        es = te["spec"]
        if ktag != f"def{vs['kind']}":
            viol.append({"clause": "C07.members", "detail": f"{tag} {vs['name']} has child {ktag}; {ctx}", "facts": facts})
            return
        if _n(ka.get("label")) != _n(es["label"] or es["name"]):
            viol.append({"clause": "C07.members", "detail": f"{vs['name']}.{es['name']} label {ka.get('label')!r} expected {es['label'] or es['name']!r}; {ctx}", "facts": facts})
            return
        if vs["kind"] == "Number":
            expv = _n(num_to_str(te["value"], es["format"]))
            wantn = {"format": es["format"], "step": str(es["step"])}
            if es["min"] is not None:
                wantn["min"] = str(es["min"])
            if es["max"] is not None:
                wantn["max"] = str(es["max"])
            for k, val in wantn.items():
                if ka.get(k) != val:
                    viol.append({"clause": "C07.members", "detail": f"{vs['name']}.{es['name']} {k}={ka.get(k)!r} expected {val!r}; {ctx}", "facts": facts})
                    return
            for k in ("min", "max", "step", "format"):
                if k not in ka:
                    viol.append({"clause": "C07.members", "detail": f"{vs['name']}.{es['name']} lacks required attribute {k}; {ctx}", "facts": facts})
                    return
        elif vs["kind"] == "BLOB":
            expv = None
            if _n(ktext) is not None:
                viol.append({"clause": "C07.members", "detail": f"defBLOB {vs['name']}.{es['name']} carries text {str(ktext)[:60]!r}; {ctx}", "facts": facts})
                return
            continue
        else:
            expv = _n(te["value"])
        if _n(ktext) != expv:
            viol.append({"clause": "C07.members", "detail": f"{vs['name']}.{es['name']} defined with value {ktext!r}, current value renders as {expv!r}; {ctx}", "facts": facts})
            return
        if vs["kind"] == "Number" and V.denotes(_n(ktext), te["value"], es["format"]) is False:
            # independent of the library's renderer: whatever the text looks like, it must denote the element's current value
            viol.append({"clause": "C07.members", "detail": f"{vs['name']}.{es['name']} (format {es['format']}) is defined as {ktext!r}, which does not denote its current value {te['value']!r}; {ctx}", "facts": dict(facts, numeric=True)})
            return


def execute(scen):
    net = scen["net"]
    cfg = NetConfig(latency=net["latency"], frag_default=net["frag"], hwm=net["hwm"])
    viol, probes = [], {}
    facts = {"latency": net["latency"], "frag": net["frag"]}
    judged = 0
    changed = False
    classes = set()
    with Sim(scen["seed"], cfg, PoolConfig()) as sim:
        rn = scen.get("read_number")
        hw = {"v": 1.0}

        def extra_attrs(spec):
            if not rn or spec["name"] != rn["dev"]:
                return None

            def extra(dct):
                from indi.device.events import Read, on
                if rn["g"] not in dct:
                    return {}
                eldef = dct[rn["g"]].vectors[rn["v"]].elements[rn["e"]]

                def fetch(self, event):
                    probes["number_fetched_by_read_handler"] = probes.get("number_fetched_by_read_handler", 0) + 1
                    event.element.reset_value(hw["v"])

                return {"fetch_from_hardware": on(eldef, Read)(fetch)}
            return extra

        stack = Stack(sim, scen["devices"], extra_attrs=extra_attrs if rn else None)
        rx = scen.get("reactive")
        request = {"on": False, "ctx": "", "n": 0, "armed": False}
        if rx:
            from indi import message as M
            from indi.routing import Client as RouterClient

            class Reactor(RouterClient):
                def message_from_device(self, msg):
                    if not (request["armed"] and msg.tag_name().startswith("def") and getattr(msg, "device", None) == rx["dev"]
                            and getattr(msg, "name", None) == rx["trigger"]):
                        return
                    request["armed"] = False
                    request["n"] += 1
                    n = request["n"]
                    if rx["kind"] == "Text":
                        new = M.NewTextVector(device=rx["dev"], name=rx["target"], children=(M.one_parts.OneText(name=rx["el"], value=f"reacted{n}"),))
                    elif rx["kind"] == "Number":
                        new = M.NewNumberVector(device=rx["dev"], name=rx["target"],
                                                children=(M.one_parts.OneNumber(name=rx["el"], value=(f"{n % 20}:30:00" if rx["sexa"] else str(n))),))
                    else:
                        new = M.NewSwitchVector(device=rx["dev"], name=rx["target"], children=(M.one_parts.OneSwitch(name=rx["el"], value="On"),))
                    probes["client_wrote_while_getProperties_was_being_answered"] = probes.get("client_wrote_while_getProperties_was_being_answered", 0) + 1
                    stack.router.process_message(new, sender=self)

            stack.router.register_client(Reactor())

        def at_emission(origin, sender, message):
            # every definition a driver emits while a request is being answered lists the driver's state at THAT moment
            if not request["on"] or origin != "driver" or viol:
                return
            tag = message.tag_name()
            if not (tag.startswith("def") and tag.endswith("Vector")):
                return
            dname = sender.name
            if dname not in stack.specs:
                return
            now = expected_defs(stack.truth(dname), message.name)
            if now:
                check_def(view_of_message(message), now[0], dname, viol, dict(facts, kind=now[0]["truth"]["kind"], at_emission=True),
                          request["ctx"] + " (judged when the definition was emitted)")

        stack.hooks.append(at_emission)
        stack.add_client(start=False)
        names = set(stack.drivers)
        v0 = []
        c01.check_initial_state(stack, v0, facts, skip={(rn["dev"], rn["vec"], rn["el"])} if rn else ())
        for x in v0:
            viol.append(dict(x, clause="C07.members", detail="(current value at history length 0) " + x["detail"]))
        # what the history says about enable flags, per device instance (independent of the driver objects)
        flags = {}
        for spec in scen["devices"]:
            for g in G.effective_groups(spec).values():
                flags[(spec["name"], "g", g["name"])] = g["enabled"]
                for v in g["vectors"].values():
                    flags[(spec["name"], "v", v["name"])] = v["enabled"]
                    flags[(spec["name"], "vg", v["name"])] = g["name"]
                    for e in v["elements"].values():
                        flags[(spec["name"], "e", v["name"], e["name"])] = e["enabled"]

        def check_flags(ctx):
            for d in stack.drivers:
                t = stack.truth(d)
                for vname, tv in t["vectors"].items():
                    want = flags[(d, "v", vname)] and flags[(d, "g", flags[(d, "vg", vname)])]
                    if bool(tv["enabled"]) != bool(want):
                        viol.append({"clause": "C07.defs", "detail": f"device {d}: property {vname} is {'enabled' if tv['enabled'] else 'disabled'} although the history of operations on {d} says {'enabled' if want else 'disabled'}; {ctx}", "facts": facts})
                        return
                    for en, te in tv["elements"].items():
                        if bool(te["enabled"]) != bool(flags[(d, "e", vname, en)]):
                            viol.append({"clause": "C07.members", "detail": f"device {d}: element {vname}.{en} is {'enabled' if te['enabled'] else 'disabled'} although no operation on {d} made it so (cross-talk between devices?); {ctx}", "facts": facts})
                            return

        for st in scen["steps"]:
            if viol:
                break
            op = st["op"]
            if op == "getprops":
                sim.settle()
                if stack.escaped() or watchdog.S.tripped or c06_closed(stack):
                    viol.append({"clause": "C07.defs", "detail": f"stack broke before the request: {stack.escaped()} {watchdog.S.tripped}", "facts": facts})
                    break
                truths = {d: stack.truth(d) for d in stack.drivers}
                check_flags(f"before getProperties device={st['device']!r} name={st['name']!r}")
                if viol:
                    break
                if any(t["missing_groups"] for t in truths.values()):
                    viol.append({"clause": "C07.defs", "detail": "driver lacks group objects its definition declares", "facts": facts})
                    break
                mark = len(stack.router_log)
                ctx = f"getProperties device={st['device']!r} name={st['name']!r}"
                if rn:
                    hw["v"] = hw["v"] + 1.5  # the hardware has moved on since anybody last looked
                request.update(on=True, ctx=ctx, armed=bool(rx))
                res = apply_step(stack, {"op": "c_handshake", "c": 0, "device": st["device"], "name": st["name"]})
                sim.settle()
                reacted = (bool(rx) and not request["armed"]) or bool(rn)
                request.update(on=False, armed=False)
                if viol:
                    break
                dev_cls = "absent" if st["device"] is None else ("existing" if st["device"] in names else "unknown")
                nm = st["name"]
                if nm is None:
                    name_cls = "absent"
                elif st["device"] is None:
                    name_cls = "named_without_device:" + ("known" if any(nm in t["vectors"] for t in truths.values()) else "unknown")
                elif st["device"] in names and nm in truths[st["device"]]["vectors"]:
                    name_cls = "enabled" if truths[st["device"]]["vectors"][nm]["enabled"] else "disabled"
                else:
                    name_cls = "unknown"
                classes.add((dev_cls, name_cls))
                if res.error:
                    viol.append({"clause": "C07.defs", "detail": f"client API raised {res.error}; {ctx}", "facts": facts})
                    break
                esc = stack.escaped()
                if esc or watchdog.S.tripped or c06_closed(stack):
                    viol.append({"clause": "C07.defs", "detail": f"request broke the stack: {esc} {watchdog.S.tripped}; {ctx}", "facts": facts})
                    break
                emitted = {}
                for origin, sname, v in stack.router_log[mark:]:
                    if origin == "driver" and v[0].startswith("def"):
                        emitted.setdefault(sname, []).append(v)
                for d in stack.drivers:
                    addressed = st["device"] is None or st["device"] == d
                    exp = expected_defs(truths[d], st["name"]) if addressed else []
                    got = emitted.get(d, [])
                    got_ids = sorted((g[0], dict(g[1]).get("name")) for g in got)
                    exp_ids = sorted((e["tag"], e["name"]) for e in exp)
                    if got_ids != exp_ids:
                        viol.append({"clause": "C07.defs", "detail": f"device {d} emitted definitions {got_ids}, expected {exp_ids}; {ctx}", "facts": dict(facts, dev=dev_cls, name=name_cls)})
                        break
                    for e in exp:
                        if reacted:
                            break  # the state moved while the answer was being given: the definitions were judged at emission
                        g = [x for x in got if dict(x[1]).get("name") == e["name"]][0]
                        check_def(g, e, d, viol, dict(facts, kind=e["truth"]["kind"]), ctx)
                        if viol:
                            break
                    if viol:
                        break
                judged += 1
            elif op == "settle":
                sim.settle()
            elif op == "gap":
                sim.gap(st)
            else:
                res = apply_step(stack, st)
                if res.error:
                    probes["op_raised:" + op] = probes.get("op_raised:" + op, 0) + 1
                elif not res.skipped and op.startswith("d_"):
                    changed = True
                    if op == "d_eenable":
                        flags[(st["dev"], "e", st["vec"], st["el"])] = st["value"]
                    elif op == "d_venable":
                        flags[(st["dev"], "v", st["vec"])] = st["value"]
                    elif op == "d_genable":
                        flags[(st["dev"], "g", st["group"])] = st["value"]
                    if op == "d_eenable":
                        probes["element_enable_flip"] = probes.get("element_enable_flip", 0) + 1
        if not viol:
            sim.settle()
            if stack.reparse_failures:
                sname, what = stack.reparse_failures[0]
                viol.append({"clause": "C07.reparse", "detail": f"a message emitted by {sname} {what} ({len(stack.reparse_failures)} such messages)", "facts": facts})
        probes["messages_reparsed"] = sum(1 for o, _, _ in stack.router_log if o == "driver")
        for k, v in sim.probes.items():
            probes[k] = probes.get(k, 0) + v
        digest = sim.digest()
        vtime, steps = sim.loop.time(), sim.loop.steps
    for c in classes:
        probes[f"request:{c[0]}/{c[1]}"] = probes.get(f"request:{c[0]}/{c[1]}", 0) + 1
    kinds = sorted({v["kind"] for s in scen["devices"] for g in G.effective_groups(s).values() for v in g["vectors"].values()})
    sig = repr((sorted(classes), kinds, sorted({s["op"] for s in scen["steps"]}), net["latency"], net["frag"], net["hwm"]))
    return {"violations": viol, "digest": digest, "probes": probes, "faults": {}, "steps": steps, "vtime": vtime, "sig": sig,
            "nontrivial": judged > 0 and changed, "sample": {"net": net, "steps": scen["steps"][:10]}}


def c06_closed(stack):
    from .c06 import server_closed
    return server_closed(stack)


simplify = c01.simplify
