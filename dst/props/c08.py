"""C08 - BLOB payloads arrive bit-exact in both directions and never stall a link."""
from __future__ import annotations

import base64
import copy
import random

from indi.transport.server import tcp as server_tcp

from ..env import Sim
from ..ref.xmlsplit import parse_elements
from ..simnet import NetConfig
from ..simpool import PoolConfig
from ..worlds.ops import apply_step
from ..worlds.stack import Stack
from .. import watchdog
from . import c01

ID = "C08"
LEVEL = "exploration"
TECHNIQUE = "deterministic simulation: payload-length sweep (every length across the 1024-byte read size and the 2048-character threshold) x content patterns x formats x read fragmentations x receiver policies x direction through the real full stack; byte-exact comparison, absence of payloads for non-enabled receivers, follow-up traffic as bounded liveness, step watchdog on the framing loops"
RULE = ("scenario = BLOB length (enumerated from the run index: 0..96, windows around every length whose message crosses a multiple of 1024 "
        "bytes and the 2048-character threshold, then 4Ki/10K/64Ki; thorough: every length 0..3200, 64Ki, 1Mi) x content {random over all "
        "256 byte values, zeros, 0xFF} x format x receivers {library client (Only on the BLOB connection), library client additionally "
        "Also on control, raw peers with policy unset/Never/Also/Only} x direction {download, upload by client API, raw upload} x partial "
        "BLOB faults x updates padded to an exact multiple of the read size x a driver registered after the clients' enableBLOB for it x fragmentation {fixed:1024, fixed:1, random, ...}; distinct = (length, direction set, policies, frag, fault); "
        "non-trivial = at least one payload of length >= 1 compared")
COMPONENTS = c01.COMPONENTS
ASSUMPTIONS = [
    "a BLOB published before a receiver's enableBLOB reached the router need not be delivered (INDI race): policies are settled before the measured update",
    "an upload whose newBLOBVector is longer than the server-side 2048-character threshold cannot be framed (C02 states the limit) - recorded as known finding K03, every other upload failure is a violation",
    "megabyte payloads cost seconds each (the framing buffer rescans its content on every read) and are drawn rarely, in the thorough tier only",
]
QUICK_RUNS = 600
QUICK_BUDGET_S = 150
THOROUGH_BUDGET_S = 360
CHUNK = 20
STEP_KEYS = ("steps",)

QUICK_LENGTHS = (list(range(0, 97)) + list(range(690, 790, 3)) + list(range(1380, 1560, 3)) + list(range(2160, 2330, 5))
                 + [3000, 4096, 10000, 65536] + [49000, 49152, 50000, 70000, 100000])
THOROUGH_LENGTHS = list(range(0, 3201)) + [4096, 10000, 65536, 65537, 1 << 20]


def _device():
    blob = {"kind": "BLOB", "name": "IMG", "label": None, "state": "Ok", "perm": "rw", "timeout": 0, "enabled": True,
            "elements": {"e0": {"name": "B0", "label": None, "default": None, "enabled": True},
                         "e1": {"name": "B1", "label": None, "default": None, "enabled": True},
                         # a member the driver only shows later (a second sensor that comes up): hidden at the start
                         "e2": {"name": "B2", "label": None, "default": None, "enabled": False}}, "rule": None, "default_on": None}
    txt = {"kind": "Text", "name": "TXT", "label": None, "state": "Ok", "perm": "rw", "timeout": 0, "enabled": True,
           "elements": {"e0": {"name": "T0", "label": None, "default": "init", "enabled": True}}, "rule": None, "default_on": None}
    # an upload-only BLOB property (firmware, overlay): write-only for clients
    upl = {"kind": "BLOB", "name": "UPL", "label": None, "state": "Ok", "perm": "wo", "timeout": 0, "enabled": True,
           "elements": {"e0": {"name": "U0", "label": None, "default": None, "enabled": True}}, "rule": None, "default_on": None}
    return {"name": "CAM", "name_via": "class", "levels": [{"groups": {"g0": {"name": "MAIN", "enabled": True, "vectors": {"v0": blob, "v1": txt, "v2": upl}}}}]}


def payload(seed, n, pattern):
    if pattern == "zeros":
        return bytes(n)
    if pattern == "ff":
        return b"\xff" * n
    r = random.Random(seed)
    if n <= 4096:
        return bytes(r.randrange(256) for _ in range(n))
    block = bytes(r.randrange(256) for _ in range(4096))
    return (block * (n // 4096 + 1))[:n]


def generate(seed, tier, index):
    rng = random.Random(seed)
    thorough = tier == "thorough"
    lens = THOROUGH_LENGTHS if thorough else QUICK_LENGTHS
    L = lens[index % len(lens)]
    big = L > 20000
    frag = rng.choice(["fixed:1024", "fixed:1024", "random", "whole", "coalesce", "fixed:7"] + ([] if L > 3000 else ["fixed:1"]))
    if big and (frag == "fixed:7" or (frag == "random" and L >= 1 << 20)):
        # the framing buffer rescans everything it holds on every read: 64 KiB in 7-byte reads cost 26 s, a megabyte would cost
        # hours (measured; a chunk of the thorough soak hit the 5-minute per-chunk limit this way). Small reads are swept at small sizes.
        frag = "fixed:1024"
    raw = rng.sample(["unset", "Never", "Also", "Only"], rng.randint(1, 4))
    if rng.random() < 0.3:
        raw = ["Also", "Only"] + [x for x in raw if x not in ("Also", "Only")]
    steps = [{"op": "down", "len": L, "pattern": rng.choice(["random", "random", "zeros", "ff"]), "format": rng.choice([".fits", ".jpg", "", ".x\xe9", ".fits.z"]),
              "other_unset": rng.random() < 0.5,
              # more traffic for the same connections is routed in the same loop iteration as the BLOB, i.e. while its
              # write/drain is still in flight (what a camera streaming frames plus status updates does)
              "burst": rng.random() < 0.5,
              # one of the raw peers is reset at the very instant of the publication: its handler is not yet reaped when the
              # BLOB is fanned out; everybody else must still receive the frame
              "reset_peer": rng.random() < 0.2}]
    up_len = L if rng.random() < 0.5 else rng.choice([0, 1, 100, 1000, 1395, 1400, 1500, 3000])
    if big:
        up_len = rng.choice([0, 100, 1000])
    ups = []
    if rng.random() < 0.7:
        ups.append({"op": "up_api", "len": up_len, "pattern": rng.choice(["random", "zeros", "ff"]), "format": rng.choice([".fits", "", ".bin"]),
                    "vec": rng.choice(["IMG", "IMG", "UPL"])})
    if rng.random() < 0.5:
        ups.append({"op": "up_raw", "len": up_len, "pattern": "random", "format": ".raw", "vec": rng.choice(["IMG", "IMG", "UPL"])})
    if rng.random() < 0.25 and not big:
        ups.append({"op": "partial_down", "len": max(L, 300), "cut": rng.random()})
    if rng.random() < 0.35 and not big:
        # the payload is installed silently (reset_value, as a Read handler or a background refresh would) and then
        # re-published by something that is not an assignment: a state change or a vector/group re-enable
        ups.append({"op": "down_reset", "len": rng.choice([1, 7, L if L else 3, 500]), "pattern": "random", "format": rng.choice([".r1", ".fits", ""]),
                    "via": rng.choice(["state", "venable", "genable"])})
    if rng.random() < 0.25:
        ups.append({"op": "partial_up", "len": max(min(L, 1200), 50), "cut": rng.random()})
        if rng.random() < 0.5:
            # an upload that breaks off after more than the server's 2048-character limit, followed on the SAME connection by
            # small complete messages, each arriving whole: they must get through once the wreck has been cleared away
            ups[-1].update(len=rng.choice([2400, 3000, 5000]), cut=rng.uniform(0.75, 0.97), same_conn_followers=rng.randint(3, 5))
    rng.shuffle(ups)
    steps += ups
    if rng.random() < 0.35 and not big:
        # the update's length on the wire is made an exact multiple of the 1024-byte read size (by padding the free-text
        # format attribute), and nothing follows it: the last read of the frame is a full one
        steps.append({"op": "down_aligned", "len": rng.choice([L, L, 700, 1500, 2300]), "pattern": "random", "mult": rng.choice([1024, 1024, 2048])})
    if rng.random() < 0.25 and not big:
        # the driver shows a further member of the BLOB property at run time; the clients learn of it through a repeated
        # definition of the property they already know, and then receive a payload on it
        steps.append({"op": "unveil_member", "len": rng.choice([1, 50, 900, L if L else 4]), "pattern": "random", "format": rng.choice([".fits", ""])})
    if rng.random() < 0.3 and not big:
        # a driver that comes up (is hot-plugged) after the clients connected and sent their enableBLOB for it
        steps.append({"op": "late_driver", "len": rng.choice([1, 3, 100, 956, L if L else 2]), "pattern": "random", "format": rng.choice([".fits", ""])})
    if rng.random() < 0.5 and not big:
        steps.append(dict(steps[0], len=rng.choice([0, 1, L]), pattern="random"))
    return {"steps": steps, "raw": raw, "also_on_control": rng.random() < 0.2 and L < 20000,
            "net": {"latency": rng.choice(["zero", "lan", "slow", "skew"]), "frag": frag, "hwm": rng.choice([0, 64, 65536])},
            "seed": rng.randrange(1 << 30)}


def _blob_msgs(text, strict=True):
    """setBLOBVector elements in a received stream -> list of {el: (bytes, format, size)}
    (strict=False: a payload that is not base64 is returned as None instead of raising)"""
    out = []
    els, tail, junk = parse_elements(text)
    for e in els:
        if e.tag == "setBLOBVector":
            d = {}
            for k in e:
                try:
                    raw = base64.b64decode(k.text or "", validate=False)
                except Exception:
                    if strict:
                        raise
                    raw = None
                d[k.attrib.get("name")] = (raw, k.attrib.get("format"), k.attrib.get("size"))
            out.append(d)
    return out, tail


def execute(scen):
    net = scen["net"]
    cfg = NetConfig(latency=net["latency"], frag_default=net["frag"], hwm=net["hwm"])
    viol, probes, faults = [], {}, {}
    compared = 0
    with Sim(scen["seed"], cfg, PoolConfig(), max_steps=3_000_000) as sim:
        stack = Stack(sim, [_device()])
        node = stack.add_client(start=True)
        sim.settle()
        raws = {}
        for pol in scen["raw"]:
            p = stack.add_raw("raw_" + pol)
            raws[pol] = p
        sim.settle()
        for pol, p in raws.items():
            if pol != "unset":
                sim.do(p.send, f'<enableBLOB device="CAM">{pol}</enableBLOB>\n')
        if scen["also_on_control"]:
            from indi import message as M
            sim.do(node.client.send_message, M.EnableBLOB(device="CAM", value="Also"))
        sim.settle()
        serial = [0]

        def follow(ctx, facts):
            """Traffic that follows a BLOB must reach every live connection."""
            serial[0] += 1
            val = f"follow{serial[0]}"
            apply_step(stack, {"op": "d_assign", "dev": "CAM", "vec": "TXT", "el": "T0", "value": val})
            small = bytes([serial[0] % 256, 1, 2])
            apply_step(stack, {"op": "d_assign", "dev": "CAM", "vec": "IMG", "el": "B1", "value": {"blob_hex": small.hex(), "format": ".s"}})
            sim.settle()
            if watchdog.S.tripped:
                viol.append({"clause": "C08.hang", "detail": f"watchdog {watchdog.S.tripped}; after {ctx}", "facts": facts})
                return
            d = node.client.get_device("CAM")
            tv = d.get_vector("TXT") if d else None
            if tv is None or tv.get_element("T0").value != val:
                viol.append({"clause": "C08.follow", "detail": f"library client: control traffic after the BLOB did not arrive (T0={tv.get_element('T0').value if tv else None!r}, expected {val!r}); after {ctx}", "facts": facts})
                return
            if not getattr(node, "blob_conn_cut", False):
                iv = d.get_vector("IMG")
                b1 = iv.get_element("B1").value if iv else None
                if b1 is None or isinstance(b1, str) or bytes(b1.binary) != small:
                    viol.append({"clause": "C08.follow", "detail": f"library client: a small BLOB after the big one did not arrive on the BLOB connection; after {ctx}", "facts": facts})
                    return
            for pol, p in raws.items():
                if getattr(p, "cut", False):
                    continue
                if pol in ("unset", "Never", "Also") and f">{val}<" not in p.text:
                    viol.append({"clause": "C08.follow", "detail": f"raw peer ({pol}): text update after the BLOB did not arrive; after {ctx}", "facts": facts})
                    return

        for st in scen["steps"]:
            if viol:
                break
            op = st["op"]
            L = st["len"]
            if op in ("down", "down_reset"):
                data = payload(scen["seed"] + L + (13 if op == "down_reset" else 0), L, st["pattern"])
                fmt = st["format"]
                facts = {"direction": "download", "len": L}
                ctx = f"download of {L} bytes format {fmt!r} frag {net['frag']}"
                for pol, p in raws.items():
                    p.mark = len(p.received)
                if st.get("reset_peer") and op == "down":
                    live = [pol for pol, p in raws.items() if not getattr(p, "cut", False)]
                    if len(live) >= 2:
                        victim = raws[live[0]]  # the earliest registered live raw peer
                        victim.cut = True
                        # as a real RST shows up: the server-side transport is marked closing/aborted now, its handler runs later
                        victim.transport.peer._closing = True
                        sim.do(sim.net.fault_reset, victim.transport.peer)
                        faults["reset_at_publication"] = faults.get("reset_at_publication", 0) + 1
                if not st.get("other_unset", True):
                    apply_step(stack, {"op": "d_reset", "dev": "CAM", "vec": "IMG", "el": "B1", "value": {"blob_hex": "0a0b", "format": ".o"}})
                if op == "down_reset":
                    res = apply_step(stack, {"op": "d_reset", "dev": "CAM", "vec": "IMG", "el": "B0", "value": {"blob_hex": data.hex(), "format": fmt}})
                    if not res.error:
                        if st["via"] == "state":
                            serial[0] += 1
                            res = apply_step(stack, {"op": "d_state", "dev": "CAM", "vec": "IMG", "value": ["Busy", "Ok", "Alert"][serial[0] % 3]})
                        elif st["via"] == "venable":
                            apply_step(stack, {"op": "d_venable", "dev": "CAM", "vec": "IMG", "value": False})
                            sim.settle()
                            res = apply_step(stack, {"op": "d_venable", "dev": "CAM", "vec": "IMG", "value": True})
                        else:
                            apply_step(stack, {"op": "d_genable", "dev": "CAM", "group": "MAIN", "value": False})
                            sim.settle()
                            res = apply_step(stack, {"op": "d_genable", "dev": "CAM", "group": "MAIN", "value": True})
                    probes["republished_after_reset:" + st["via"]] = probes.get("republished_after_reset:" + st["via"], 0) + 1
                else:
                    res = apply_step(stack, {"op": "d_assign", "dev": "CAM", "vec": "IMG", "el": "B0", "value": {"blob_hex": data.hex(), "format": fmt}})
                if res.error:
                    viol.append({"clause": "C08.down", "detail": f"publishing raised {res.error}; {ctx}", "facts": facts})
                    break
                burst_val = None
                if st.get("burst"):
                    serial[0] += 1
                    burst_val = f"burst{serial[0]}"
                    apply_step(stack, {"op": "d_assign", "dev": "CAM", "vec": "TXT", "el": "T0", "value": burst_val})
                    apply_step(stack, {"op": "d_assign", "dev": "CAM", "vec": "IMG", "el": "B1", "value": {"blob_hex": "0102", "format": ".q"}})
                    probes["traffic_routed_while_blob_in_flight"] = probes.get("traffic_routed_while_blob_in_flight", 0) + 1
                sim.settle()
                if watchdog.S.tripped:
                    viol.append({"clause": "C08.hang", "detail": f"watchdog {watchdog.S.tripped}; {ctx}", "facts": facts})
                    break
                esc = [e for e in stack.escaped() if "ConnectionResetError" not in e and "Connection lost" not in e]
                if esc:
                    viol.append({"clause": "C08.hang", "detail": f"escaped {esc[:2]}; {ctx}", "facts": facts})
                    break
                inverted = op == "down_reset" and st["via"] != "state" and c01._inversion(node.applied, "CAM", "IMG")
                if inverted:
                    # the payload arrived on the BLOB connection before the re-definition on the control connection, which
                    # then replaced the property: the two-connection ordering race (C01's K01/K04), not a BLOB transfer fault
                    probes["redefinition_overtaken_by_blob"] = probes.get("redefinition_overtaken_by_blob", 0) + 1
                if not getattr(node, "blob_conn_cut", False) and not inverted:
                    d = node.client.get_device("CAM")
                    iv = d.get_vector("IMG") if d else None
                    got = iv.get_element("B0").value if iv else None
                    if got is None or isinstance(got, str):
                        viol.append({"clause": "C08.down", "detail": f"library client holds {str(got)[:60]!r} instead of the BLOB; {ctx}", "facts": dict(facts, receiver="library")})
                        break
                    if bytes(got.binary) != data or (got.format or "") != fmt or got.size != L:
                        viol.append({"clause": "C08.down", "detail": f"library client: payload differs (len {len(got.binary)} vs {L}, format {got.format!r} vs {fmt!r}); {ctx}", "facts": dict(facts, receiver="library")})
                        break
                    compared += 1 if L else 0
                for pol, p in raws.items():
                    if getattr(p, "cut", False):
                        continue
                    try:
                        msgs, tail = _blob_msgs(p.received[p.mark:].decode("latin1"))
                    except Exception as e:  # noqa
                        viol.append({"clause": "C08.down", "detail": f"raw peer ({pol}): stream unparseable {e!r}; {ctx}", "facts": facts})
                        break
                    if pol in ("unset", "Never"):
                        if msgs:
                            viol.append({"clause": "C08.nopayload", "detail": f"raw peer with policy {pol} received a setBLOBVector; {ctx}", "facts": dict(facts, policy=pol)})
                            break
                    else:
                        mine = [m for m in msgs if "B0" in m]
                        if burst_val is not None and len(mine) == 2 and mine[0]["B0"] == mine[1]["B0"]:
                            mine = mine[:1]  # the follow-up BLOB update of the sibling element repeats B0
                        if len(mine) != 1:
                            viol.append({"clause": "C08.down", "detail": f"raw peer ({pol}) received {len(mine)} setBLOBVector messages for one update; {ctx}", "facts": dict(facts, policy=pol)})
                            break
                        b, f, s = mine[0]["B0"]
                        if b != data or (f or "") != fmt or s != str(L):
                            viol.append({"clause": "C08.down", "detail": f"raw peer ({pol}): payload differs (len {len(b)} vs {L}, format {f!r}, size attr {s!r}); {ctx}", "facts": dict(facts, policy=pol)})
                            break
                        compared += 1 if L else 0
                if not viol:
                    follow(ctx, facts)
            elif op in ("up_api", "up_raw"):
                data = payload(scen["seed"] + 7 * L + 1, L, st["pattern"])
                fmt = st["format"]
                b64 = base64.b64encode(data).decode()
                upvec = st.get("vec", "IMG")
                upel = "B0" if upvec == "IMG" else "U0"
                xml = f'<newBLOBVector device="CAM" name="{upvec}"><oneBLOB name="{upel}" size="{L}" format="{fmt}">{b64}</oneBLOB></newBLOBVector>\n'
                over = len(xml) + (22 if op == "up_api" else 0) > 2048
                facts = {"direction": "upload", "len": L, "over_server_threshold": over, "via": op}
                if upvec != "IMG":
                    probes["upload_to_write_only_property"] = probes.get("upload_to_write_only_property", 0) + 1
                ctx = f"{op} of {L} bytes ({len(xml)} chars on the wire) frag {net['frag']}"
                if op == "up_api":
                    up_pipe = sim.net.find("cl0.ctl")[0].out
                    w0 = up_pipe.written
                    res = apply_step(stack, {"op": "c_write", "c": 0, "dev": "CAM", "vec": upvec, "els": [[upel, {"blob_hex": data.hex(), "format": fmt}]]})
                    sim.loop.step_iterations(3)  # let the send task hand the message to the transport
                    wire = up_pipe.written - w0  # what the client really put on the wire (timestamp, declaration, escaping included)
                    over = wire > 2048
                    facts["over_server_threshold"] = over
                    ctx = f"{op} of {L} bytes ({wire} chars on the wire) frag {net['frag']}"
                    if res.error:
                        viol.append({"clause": "C08.up", "detail": f"client API raised {res.error}; {ctx}", "facts": facts})
                        break
                    if res.skipped:
                        continue
                else:
                    up = stack.add_raw(f"uploader{len(stack.raw)}")
                    sim.settle()
                    sim.do(up.send, xml)
                sim.settle()
                if watchdog.S.tripped:
                    viol.append({"clause": "C08.hang", "detail": f"watchdog {watchdog.S.tripped}; {ctx}", "facts": facts})
                    break
                got = stack.el_obj("CAM", upvec, upel).value
                if got is None or bytes(got.binary) != data or (got.format or "") != fmt:
                    viol.append({"clause": "C08.up", "detail": f"driver holds {('%d bytes' % len(got.binary)) if got is not None else None} format {getattr(got, 'format', None)!r}, uploaded {L} bytes format {fmt!r}; {ctx}", "facts": facts})
                    if not over:
                        break
                    # known-limit case: keep going so that the follow-up traffic is still judged
                    viol_known = viol.pop()
                    follow(ctx, facts)
                    viol.insert(0, viol_known)
                    break
                compared += 1 if L else 0
                follow(ctx, facts)
            elif op == "down_aligned":
                if getattr(node, "blob_conn_cut", False):
                    continue
                data = payload(scen["seed"] + 17 * L + 3, L, st["pattern"])
                facts = {"direction": "download", "len": L, "aligned": True}
                ct, stt = sim.net.find("cl0.blob")
                pipe = stt.out  # server -> client, BLOB connection
                fmt, pad, aligned = ".al", 0, False
                for attempt in range(4):
                    fmt = ".al%d" % attempt + "p" * pad
                    w0 = pipe.written
                    for pol, p in raws.items():
                        p.mark = len(p.received)
                    res = apply_step(stack, {"op": "d_assign", "dev": "CAM", "vec": "IMG", "el": "B0", "value": {"blob_hex": data.hex(), "format": fmt}})
                    if res.error or res.skipped:
                        break
                    sim.settle()
                    wire = pipe.written - w0
                    if wire % st["mult"] == 0:
                        aligned = True
                        break
                    pad += (-wire) % st["mult"]
                ctx = f"download of {L} bytes whose update is {wire} bytes on the wire (a multiple of {st['mult']}: {aligned}), link idle afterwards, frag {net['frag']}"
                if res.error:
                    viol.append({"clause": "C08.down", "detail": f"publishing raised {res.error}; {ctx}", "facts": facts})
                    break
                if watchdog.S.tripped:
                    viol.append({"clause": "C08.hang", "detail": f"watchdog {watchdog.S.tripped}; {ctx}", "facts": facts})
                    break
                if aligned:
                    probes["update_length_multiple_of_read_size"] = probes.get("update_length_multiple_of_read_size", 0) + 1
                d = node.client.get_device("CAM")
                iv = d.get_vector("IMG") if d else None
                got = iv.get_element("B0").value if iv else None
                if got is None or isinstance(got, str) or bytes(got.binary) != data or (got.format or "") != fmt or got.size != L:
                    viol.append({"clause": "C08.down", "detail": f"library client holds {('%d bytes format %r' % (len(got.binary), got.format)) if got is not None and not isinstance(got, str) else got!r} "
                                 f"instead of the {L} bytes format {fmt[:12]!r}... just published; {ctx}", "facts": dict(facts, receiver="library")})
                    break
                for pol, p in raws.items():
                    if getattr(p, "cut", False) or pol in ("unset", "Never"):
                        continue
                    msgs, tail = _blob_msgs(p.received[p.mark:].decode("latin1"), strict=False)
                    mine = [m for m in msgs if "B0" in m]
                    if len(mine) != 1 or mine[0]["B0"][0] != data or (mine[0]["B0"][1] or "") != fmt:
                        viol.append({"clause": "C08.down", "detail": f"raw peer ({pol}) did not receive the update exactly once and intact; {ctx}", "facts": dict(facts, policy=pol)})
                        break
                if not viol:
                    compared += 1 if L else 0
                    follow(ctx, facts)
            elif op == "unveil_member":
                if getattr(node, "blob_conn_cut", False) or stack.el_obj("CAM", "IMG", "B2").enabled:
                    continue
                data = payload(scen["seed"] + 19 * L + 4, L, st["pattern"])
                fmt = st["format"]
                facts = {"direction": "download", "len": L, "unveiled_member": True}
                ctx = f"download of {L} bytes on a member of the BLOB property that the driver showed at run time"
                apply_step(stack, {"op": "d_eenable", "dev": "CAM", "vec": "IMG", "el": "B2", "value": True})
                apply_step(stack, {"op": "c_handshake", "c": 0, "device": "CAM", "name": "IMG"})
                sim.settle()
                res = apply_step(stack, {"op": "d_assign", "dev": "CAM", "vec": "IMG", "el": "B2", "value": {"blob_hex": data.hex(), "format": fmt}})
                sim.settle()
                probes["member_shown_at_run_time"] = probes.get("member_shown_at_run_time", 0) + 1
                if res.error or res.skipped:
                    viol.append({"clause": "C08.down", "detail": f"publishing raised {res.error or res.skipped}; {ctx}", "facts": facts})
                    break
                d = node.client.get_device("CAM")
                iv = d.get_vector("IMG") if d else None
                el2 = iv.get_element("B2") if iv and "B2" in iv.list_elements() else None
                got = el2.value if el2 is not None else None
                if got is None or isinstance(got, str) or bytes(got.binary) != data or (got.format or "") != fmt:
                    viol.append({"clause": "C08.down", "detail": f"library client: the member is {'unknown to the client' if el2 is None else 'known but holds ' + str(got)[:40]}; {ctx}", "facts": dict(facts, receiver="library")})
                    break
                compared += 1
                follow(ctx, facts)
            elif op == "late_driver":
                from ..gen import drivers as G
                data = payload(scen["seed"] + 11 * L + 2, L, st["pattern"])
                fmt = st["format"]
                facts = {"direction": "download", "len": L, "late_driver": True}
                ctx = f"download of {L} bytes from a driver registered after the clients' enableBLOB for it"
                for pol, p in raws.items():
                    if pol != "unset" and not getattr(p, "cut", False):
                        sim.do(p.send, f'<enableBLOB device="CAM2">{pol}</enableBLOB>\n')
                sim.settle()
                spec2 = _device()
                spec2["name"], spec2["name_via"] = "CAM2", "ctor"
                stack.specs["CAM2"] = spec2
                stack.drivers["CAM2"] = G.instantiate(spec2, stack.router)
                for pol, p in raws.items():
                    p.mark = len(p.received)
                res = apply_step(stack, {"op": "d_assign", "dev": "CAM2", "vec": "IMG", "el": "B0", "value": {"blob_hex": data.hex(), "format": fmt}})
                if res.error or res.skipped:
                    viol.append({"clause": "C08.down", "detail": f"publishing raised {res.error or res.skipped}; {ctx}", "facts": facts})
                    break
                sim.settle()
                probes["driver_registered_after_enableBLOB"] = probes.get("driver_registered_after_enableBLOB", 0) + 1
                for pol, p in raws.items():
                    if getattr(p, "cut", False):
                        continue
                    msgs, tail = _blob_msgs(p.received[p.mark:].decode("latin1"), strict=False)
                    if pol in ("unset", "Never"):
                        if msgs:
                            viol.append({"clause": "C08.nopayload", "detail": f"raw peer with policy {pol} received a setBLOBVector; {ctx}", "facts": dict(facts, policy=pol)})
                            break
                    else:
                        mine = [m for m in msgs if "B0" in m]
                        if len(mine) != 1:
                            viol.append({"clause": "C08.down", "detail": f"raw peer ({pol}) received {len(mine)} setBLOBVector messages for one update; {ctx}", "facts": dict(facts, policy=pol)})
                            break
                        b, f, sz = mine[0]["B0"]
                        if b != data or (f or "") != fmt or sz != str(L):
                            viol.append({"clause": "C08.down", "detail": f"raw peer ({pol}): payload differs (len {len(b) if b is not None else 'undecodable'} vs {L}, format {f!r}, size attr {sz!r}); {ctx}", "facts": dict(facts, policy=pol)})
                            break
                        compared += 1
                if not viol:
                    follow(ctx, facts)
            elif op == "partial_down":
                # the library client's BLOB connection is cut inside a payload; control continues
                data = payload(scen["seed"] + 3, L, "random")
                facts = {"direction": "download", "len": L, "fault": "partial_down"}
                ctx = f"BLOB connection cut inside a {L}-byte payload"
                ct, stt = sim.net.find("cl0.blob")
                pipe = stt.out  # server -> client
                before = pipe.delivered
                apply_step(stack, {"op": "d_assign", "dev": "CAM", "vec": "IMG", "el": "B0", "value": {"blob_hex": data.hex(), "format": ".p"}})
                total = len(pipe.pending)
                k = max(1, int(total * st["cut"]))
                # deliver k bytes, then the connection dies
                def cut():
                    chunk = bytes(pipe.pending[:k])
                    del pipe.pending[:k]
                    pipe.boundaries.clear()
                    if pipe.timer:
                        pipe.timer.cancel()
                        pipe.timer = None
                    ct._protocol.data_received(chunk)
                    sim.net.fault_reset(ct)
                sim.do(cut)
                node.blob_conn_cut = True
                faults["partial_blob_download"] = faults.get("partial_blob_download", 0) + 1
                sim.settle()
                follow(ctx, facts)
            elif op == "partial_up":
                data = payload(scen["seed"] + 5, L, "random")
                b64 = base64.b64encode(data).decode()
                xml = f'<newBLOBVector device="CAM" name="IMG"><oneBLOB name="B0" size="{L}" format=".h">{b64}</oneBLOB></newBLOBVector>\n'
                k = max(1, int(len(xml) * st["cut"]))
                facts = {"direction": "upload", "len": L, "fault": "partial_up"}
                up = stack.add_raw(f"halfuploader{len(stack.raw)}")
                sim.settle()
                sim.do(up.send, xml[:k])
                sim.settle()
                faults["partial_blob_upload"] = faults.get("partial_blob_upload", 0) + 1
                follow(f"half an upload ({k} of {len(xml)} chars) left pending on another connection", facts)
                if not viol and st.get("same_conn_followers"):
                    last = None
                    for j in range(st["same_conn_followers"]):
                        serial[0] += 1
                        last = f"behind{serial[0]}"
                        sim.do(up.send, f'<newTextVector device="CAM" name="TXT"><oneText name="T0">{last}</oneText></newTextVector>\n')
                        sim.settle()
                    got_t0 = stack.el_obj("CAM", "TXT", "T0").value
                    probes["complete_messages_behind_a_wrecked_upload"] = probes.get("complete_messages_behind_a_wrecked_upload", 0) + 1
                    if got_t0 != last:
                        viol.append({"clause": "C08.follow", "detail": f"{st['same_conn_followers']} complete messages sent on the same connection behind an upload that broke off after {k} characters "
                                     f"never reached the driver (T0 holds {got_t0!r}, the last one carried {last!r})", "facts": dict(facts, same_connection=True)})
                        break
                if not viol:
                    sim.do(up.close)
                    sim.settle()
                    follow("the half-uploading connection closed", facts)
        if not viol:
            esc = [e for e in stack.escaped() if "ConnectionResetError" not in e and "Connection lost" not in e]
            if esc:
                viol.append({"clause": "C08.hang", "detail": f"escaped {esc[:2]}", "facts": {}})
        digest = sim.digest()
        vtime, steps = sim.loop.time(), sim.loop.steps
        if watchdog.S.min_headroom is not None:
            probes_h = round(watchdog.S.min_headroom, 1)
        else:
            probes_h = None
    sig = repr((tuple((s["op"], s["len"]) for s in scen["steps"]), tuple(sorted(scen["raw"])), net["frag"], scen["also_on_control"]))
    extra = {}
    if probes_h is not None:
        extra["min_watchdog_headroom_x"] = probes_h
    return {"violations": viol[:1], "digest": digest, "probes": probes, "faults": faults, "steps": steps, "vtime": vtime, "sig": sig,
            "nontrivial": compared > 0, "extra": extra,
            "sample": {"steps": [{k: v for k, v in s.items()} for s in scen["steps"]], "raw": scen["raw"], "net": net}}


def simplify(scen):
    for k, v in (("latency", "zero"), ("frag", "whole"), ("hwm", 65536)):
        if scen["net"][k] != v:
            c = copy.deepcopy(scen)
            c["net"][k] = v
            yield c
    if len(scen["raw"]) > 1:
        for i in range(len(scen["raw"])):
            c = copy.deepcopy(scen)
            del c["raw"][i]
            yield c
    for i, s in enumerate(scen["steps"]):
        if s["len"] > 1:
            for nl in (s["len"] // 2, s["len"] - 1):
                c = copy.deepcopy(scen)
                c["steps"][i]["len"] = nl
                yield c
