"""C09 - switch vectors always satisfy their rule (in the driver, in every published update, in every client view)."""
from __future__ import annotations

import copy
import random

from ..env import Sim
from ..gen import drivers as G
from ..ref.device_model import apply_switch, apply_switch_write, rule_ok
from ..simnet import NetConfig
from ..simpool import PoolConfig
from ..worlds.ops import apply_step
from ..worlds.stack import Stack
from .. import watchdog
from . import c01

ID = "C09"
LEVEL = "exploration"
TECHNIQUE = "deterministic simulation: several concurrent writers (real clients over the simulated wire, raw multi-switch writes, driver-side assignments) on switch vectors of every rule; rule invariant checked on driver state per operation, on every published update (router tap) and on every client view after every delivered message"
RULE = ("scenario = one device with switch vectors (rule x 1..5 switches x arbitrary initial configuration) x sequence of operations from "
        "several actors {client write On/Off to one switch, client write naming several switches incl. duplicates and contradictory pairs "
        "(raw newSwitchVector), driver value=, bool_value=, set_value(), selected_value=, selected_values=} with seeded gaps x fault {the publication of a driver-side assignment raises} x network knobs; "
        "distinct transitions (rule, n, pre-state, operation, target) are counted; non-trivial = at least 3 operations applied")
COMPONENTS = c01.COMPONENTS
ASSUMPTIONS = [
    "fault publication_raises: the assignment itself raises, so 'turning a switch On leaves it On' is not demanded of it - the rule clauses are",
    "all clauses are pre -> post implications: a configuration that violates the rule before an operation (odd initial defaults) cannot alarm",
    "it is not demanded that the first of two Ons in one multi-switch OneOfMany write stays On",
    "client writes and driver-side operations are applied one router call at a time (asyncio callbacks are atomic), so 'concurrent' means interleaved at message granularity with seeded arrival order",
]
QUICK_RUNS = 800
QUICK_BUDGET_S = 150
THOROUGH_BUDGET_S = 360
CHUNK = 25
STEP_KEYS = ("steps",)


def gen_switch_device(rng):
    used_v = set()
    vectors = {}
    for i, rule in enumerate(rng.sample(G.RULES, rng.randint(1, 3))):
        n = rng.randint(1, 5)
        used_e = set()
        els = {}
        for j in range(n):
            els[f"e{j}"] = {"name": G._name(rng, "S", used_e), "label": None, "default": None, "enabled": True}
        names = [e["name"] for e in els.values()]
        k = rng.randint(0, n)  # arbitrary initial configuration, may violate the rule
        v = {"kind": "Switch", "name": G._name(rng, "V", used_v), "label": None, "state": "Ok", "perm": "rw", "timeout": 0,
             "enabled": True, "elements": els, "rule": rule, "default_on": rng.sample(names, k)}
        if k and rng.random() < 0.35:
            # the initial selection declared on the switches themselves (Switch(..., default="On")) instead of through default_on
            for e in els.values():
                if e["name"] in v["default_on"]:
                    e["default"] = "On"
            v["default_on"] = None
            v["declared_on_elements"] = True
        vectors[f"v{i}"] = v
    return {"name": "SW", "name_via": "class", "levels": [{"groups": {"g0": {"name": "MAIN", "enabled": True, "vectors": vectors}}}]}


def generate(seed, tier, index):
    rng = random.Random(seed)
    G.SPICY_NAMES[0] = False
    thorough = tier == "thorough"
    spec = gen_switch_device(rng)
    vecs = list(spec["levels"][0]["groups"]["g0"]["vectors"].values())
    nclients = rng.choice([1, 2, 2])
    steps = [{"op": "start_client", "c": c} for c in range(nclients)] + [{"op": "settle"}]
    for _ in range(rng.randint(3, 40 if thorough else 14)):
        v = rng.choice(vecs)
        names = [e["name"] for e in v["elements"].values()]
        r = rng.random()
        if r < 0.25:
            steps.append({"op": "c_write", "c": rng.randrange(nclients), "dev": "SW", "vec": v["name"], "els": [[rng.choice(names), rng.choice(["On", "Off"])]]})
        elif r < 0.4:
            k = rng.randint(2, 4)
            steps.append({"op": "raw_write", "vec": v["name"], "els": [[rng.choice(names), rng.choice(["On", "On", "Off"])] for _ in range(k)]})
        elif r < 0.52:
            steps.append({"op": "d_assign", "dev": "SW", "vec": v["name"], "el": rng.choice(names), "value": rng.choice(["On", "Off"])})
        elif r < 0.62:
            steps.append({"op": "d_bool", "dev": "SW", "vec": v["name"], "el": rng.choice(names), "value": rng.random() < 0.5})
        elif r < 0.7:
            steps.append({"op": "d_set_value", "dev": "SW", "vec": v["name"], "el": rng.choice(names), "value": rng.choice(["On", "Off"])})
        elif r < 0.78:
            steps.append({"op": "d_select", "dev": "SW", "vec": v["name"], "el": rng.choice(names)})
        elif r < 0.84:
            k = rng.randint(0, len(names)) if v["rule"] == "AnyOfMany" else rng.randint(0, 1)
            steps.append({"op": "d_selects", "dev": "SW", "vec": v["name"], "els": rng.sample(names, k)})
        elif r < 0.88:
            # the driver hides / shows a switch at run time (element.enabled); the rule keeps counting hidden switches
            steps.append({"op": "d_eenable", "dev": "SW", "vec": v["name"], "el": rng.choice(names), "value": rng.random() < 0.5})
        elif r < 0.905:
            # the driver hides / shows the whole property or its group (a disconnected device hides its controls); driver-side
            # assignments go on while it is hidden, and the rule holds there too - it is what gets published when it is shown again
            if rng.random() < 0.5:
                # hidden, assigned to while hidden, shown again
                steps.append({"op": "d_venable", "dev": "SW", "vec": v["name"], "value": False})
                for _ in range(rng.randint(1, 3)):
                    steps.append(rng.choice([{"op": "d_bool", "dev": "SW", "vec": v["name"], "el": rng.choice(names), "value": rng.random() < 0.7},
                                             {"op": "d_select", "dev": "SW", "vec": v["name"], "el": rng.choice(names)}]))
                steps.append({"op": "d_venable", "dev": "SW", "vec": v["name"], "value": True})
            elif rng.random() < 0.6:
                steps.append({"op": "d_venable", "dev": "SW", "vec": v["name"], "value": rng.random() < 0.5})
            else:
                steps.append({"op": "d_genable", "dev": "SW", "group": "MAIN", "value": rng.random() < 0.5})
        elif r < 0.94:
            steps.append({"op": "gap", "dt": rng.choice([0.0, 0.001, 0.1, 2.0])})
            if rng.random() < 0.5:
                steps[-1]["iters"] = rng.randint(1, 8)
        else:
            steps.append({"op": "settle"})
    for st in steps:
        if st["op"] in ("d_assign", "d_bool", "d_set_value", "d_select") and rng.random() < 0.12:
            # fault: the publication of this assignment fails - an endpoint registered with the router raises while the update
            # is handed to it (a connection that has just died); the assignment raises, the rule must hold all the same
            st["pub_fails"] = True
    net = {"latency": rng.choice(["zero", "lan", "slow", "bursty", "skew"]),
           "frag": rng.choice(["whole", "fixed:1", "fixed:7", "random", "coalesce"]), "hwm": rng.choice([0, 64, 65536])}
    # drivers commonly react to a switch change by updating the property's state (which publishes the vector again):
    # whatever such a handler publishes must satisfy the rule too
    handlers = [v["name"] for v in vecs if rng.random() < 0.5]
    # ... and a driver may veto a client's write (it will confirm later, from the hardware): a vetoed write changes nothing
    vetoes = [[v["name"], e["name"]] for v in vecs for e in v["elements"].values() if rng.random() < 0.15]
    return {"devices": [spec], "nclients": nclients, "steps": steps, "net": net, "seed": rng.randrange(1 << 30), "state_handlers": handlers,
            "veto_handlers": vetoes}


def execute(scen):
    net = scen["net"]
    cfg = NetConfig(latency=net["latency"], frag_default=net["frag"], hwm=net["hwm"])
    viol, probes, faults = [], {}, {}
    facts = {"latency": net["latency"], "frag": net["frag"]}
    spec = scen["devices"][0]
    vspecs = {v["name"]: v for v in spec["levels"][0]["groups"]["g0"]["vectors"].values()}
    transitions = set()
    applied_ops = 0
    with Sim(scen["seed"], cfg, PoolConfig()) as sim:
        from indi.device.events import Change, Write, on

        def extra(spec_):
            def build(dct):
                out = {}
                grp = dct["g0"]
                for vattr, vdef in grp.vectors.items():
                    if vdef.name not in scen.get("state_handlers", []):
                        continue
                    srcs = list(vdef.elements.values())
                    counter = [0]

                    def handler(self, event, counter=counter):
                        counter[0] += 1
                        probes["change_handler_published"] = probes.get("change_handler_published", 0) + 1
                        event.vector.state_ = ["Busy", "Ok", "Alert"][counter[0] % 3]

                    handler.__name__ = f"on_change_{vattr}"
                    out[f"on_change_{vattr}"] = on(srcs, Change)(handler)
                for vattr, vdef in grp.vectors.items():
                    vsrcs = [edef for edef in vdef.elements.values() if [vdef.name, edef.name] in scen.get("veto_handlers", [])]
                    if vsrcs:
                        def veto(self, event):
                            probes["write_vetoed"] = probes.get("write_vetoed", 0) + 1
                            event.prevent_default = True

                        veto.__name__ = f"veto_{vattr}"
                        out[f"veto_{vattr}"] = on(vsrcs, Write)(veto)
                return out
            return build

        stack = Stack(sim, scen["devices"], extra_attrs=extra)

        from indi.routing import Client as RouterClient

        class DyingEndpoint(RouterClient):
            armed = False

            def message_from_device(self, message):
                if self.armed and message.tag_name() == "setSwitchVector":
                    self.armed = False
                    raise ConnectionResetError("sim: endpoint died while the update was handed to it")

        dying = DyingEndpoint()  # registered at its first use, i.e. behind the connections made at the start: they are served first
        for _ in range(scen["nclients"]):
            stack.add_client(start=False)
        raw = stack.add_raw("rawwriter")
        sim.settle()

        def cur(vname):
            vec, vs = stack.vec_obj("SW", vname)
            return {e["name"]: getattr(vec, a)._value for a, e in vs["elements"].items()}

        # pre-state at the start of the operation currently being applied to each vector
        pre = {vn: cur(vn) for vn in vspecs}
        pre_ok = {vn: rule_ok(vspecs[vn]["rule"], list(pre[vn].values())) for vn in vspecs}

        def begin_op(vname):
            pre[vname] = cur(vname)
            pre_ok[vname] = rule_ok(vspecs[vname]["rule"], list(pre[vname].values()))

        def hook(origin, sender, message):
            tag = message.tag_name()
            if origin == "client" and tag == "newSwitchVector" and message.name in vspecs:
                begin_op(message.name)
                probes["client_write_routed"] = probes.get("client_write_routed", 0) + 1
            if origin == "driver" and tag == "setSwitchVector" and message.name in vspecs:
                vals = [c.value for c in message.children]
                rule = vspecs[message.name]["rule"]
                if len(vals) != len(vspecs[message.name]["elements"]):
                    vals = list(cur(message.name).values())  # some switches are hidden: the update is a partial view, judge the full state
                    probes["update_published_with_hidden_switches"] = probes.get("update_published_with_hidden_switches", 0) + 1
                if pre_ok[message.name] and not rule_ok(rule, vals):
                    viol.append({"clause": "C09.published", "detail": f"published setSwitchVector {message.name} ({rule}) carries {[(c.name, c.value) for c in message.children]} "
                                 f"although the vector satisfied its rule before the operation ({pre[message.name]})", "facts": dict(facts, rule=rule)})

        stack.hooks.append(hook)
        # every client view after every delivered message
        last_ok = {}
        for node in stack.clients:
            orig = node.client.process_message

            def spy(msg, node=node, orig=orig):
                r = orig(msg)
                tag = msg.tag_name()
                if tag in ("setSwitchVector", "defSwitchVector") and getattr(msg, "name", None) in vspecs:
                    dev = node.client.get_device("SW")
                    mv = dev.get_vector(msg.name) if dev else None
                    if mv is not None:
                        vals = [mv.get_element(n).value for n in mv.list_elements()]
                        rule = vspecs[msg.name]["rule"]
                        if len(vals) != len(vspecs[msg.name]["elements"]) or msg.name in ever_hidden:
                            # a partial or possibly stale view: hiding a switch publishes nothing (the library's element-enabled
                            # setter is silent), so a client may still hold a hidden member - nothing to judge on the client side
                            return r
                        ok = rule_ok(rule, vals)
                        key = (node.name, msg.name)
                        if last_ok.get(key, False) and not ok and pre_ok_seen.get(msg.name, True):
                            viol.append({"clause": "C09.published", "detail": f"{node.name} observed {msg.name} ({rule}) = {vals} after a state that satisfied the rule", "facts": dict(facts, rule=rule)})
                        last_ok[key] = ok
                return r

            node.client.process_message = spy
        pre_ok_seen = {}
        ever_hidden = set()

        initial_ok = dict(pre_ok)
        # the configuration the definition declares (default_on) satisfies the rule <=> the driver starts in a state that does
        for vn, vs_ in vspecs.items():
            declared = ["On" if ((vs_["default_on"] and e["name"] in vs_["default_on"]) or e.get("default") == "On") else "Off" for e in vs_["elements"].values()]
            if rule_ok(vs_["rule"], declared) and not initial_ok[vn]:
                viol.append({"clause": "C09.oneof" if vs_["rule"] == "OneOfMany" else "C09.atmost",
                             "detail": f"{vn} ({vs_['rule']}) is declared with default_on={vs_['default_on']!r} over switches {[e['name'] for e in vs_['elements'].values()]} "
                                       f"and starts as {cur(vn)}", "facts": dict(facts, rule=vs_["rule"], initial=True)})
                break
        hidden = set()
        vetoed = {tuple(x) for x in scen.get("veto_handlers", [])}

        def quiescent_rule_check(where):
            for vn, vs_ in vspecs.items():
                if initial_ok[vn] and not rule_ok(vs_["rule"], list(cur(vn).values())):
                    viol.append({"clause": "C09.oneof" if vs_["rule"] == "OneOfMany" else "C09.atmost",
                                 "detail": f"{where}: driver state of {vn} ({vs_['rule']}) is {cur(vn)} although it started from a configuration satisfying the rule", "facts": dict(facts, rule=vs_["rule"])})
                    return

        for st in scen["steps"]:
            if viol:
                break
            op = st["op"]
            if op == "settle":
                sim.settle()
                quiescent_rule_check("at quiescence")
                continue
            if op == "gap":
                sim.gap(st)
                continue
            if op == "start_client":
                apply_step(stack, st)
                continue
            if op in ("d_venable", "d_genable"):
                apply_step(stack, st)
                probes["property_hidden_or_shown_at_run_time"] = probes.get("property_hidden_or_shown_at_run_time", 0) + 1
                continue
            if op == "d_eenable":
                apply_step(stack, st)
                hidden.add((st["vec"], st["el"])) if not st["value"] else hidden.discard((st["vec"], st["el"]))
                if not st["value"]:
                    ever_hidden.add(st["vec"])
                continue
            vname = st["vec"]
            vs = vspecs[vname]
            rule = vs["rule"]
            n = len(vs["elements"])
            if op == "raw_write":
                kids = "".join(f'<oneSwitch name="{nm}">{val}</oneSwitch>' for nm, val in st["els"])
                sim.do(raw.send, f'<newSwitchVector device="SW" name="{vname}">{kids}</newSwitchVector>\n')
                applied_ops += 1
                transitions.add((rule, n, "raw_write", len(st["els"])))
                continue
            if op == "c_write":
                res = apply_step(stack, st)
                if res.error:
                    viol.append({"clause": "C09.stick", "detail": f"client write raised {res.error}", "facts": facts})
                elif not res.skipped:
                    applied_ops += 1
                    transitions.add((rule, n, "c_write", st["els"][0][1]))
                continue
            # driver-side, synchronous: full pre -> post check
            begin_op(vname)
            before = dict(pre[vname])
            ok_before = pre_ok[vname]
            if st.get("pub_fails"):
                if dying not in stack.router.clients:
                    stack.router.register_client(dying)
                dying.armed = True
            res = apply_step(stack, st)
            injected = bool(st.get("pub_fails")) and not dying.armed and res.error is not None and "endpoint died" in res.error
            dying.armed = False
            after = cur(vname)
            applied_ops += 1
            if injected:
                faults["publication_raises"] = faults.get("publication_raises", 0) + 1
                on_after = sum(1 for v in after.values() if v == "On")
                ctx = f"{op} {st.get('el')}={st.get('value')!r} on {vname} ({rule}) {before} -> {after}, the publication of which failed"
                if rule == "OneOfMany" and ok_before and on_after != 1:
                    viol.append({"clause": "C09.oneof", "detail": ctx, "facts": dict(facts, rule=rule, op=op, fault="publication_raises")})
                elif rule == "AtMostOne" and ok_before and on_after > 1:
                    viol.append({"clause": "C09.atmost", "detail": ctx, "facts": dict(facts, rule=rule, op=op, fault="publication_raises")})
                continue
            key = tuple(sorted(before.items()))
            transitions.add((rule, n, key, op, st.get("el"), st.get("value")))
            f2 = dict(facts, rule=rule, op=op)
            ctx = f"{op} {st.get('el') or st.get('els')}={st.get('value')!r} on {vname} ({rule}) {before} -> {after}"
            if op == "d_set_value" and (vname, st["el"]) in vetoed:
                if after != before and not res.error:
                    viol.append({"clause": "C09.oneof" if rule == "OneOfMany" else ("C09.atmost" if rule == "AtMostOne" else "C09.any"),
                                 "detail": f"a vetoed write changed the vector; {ctx}", "facts": f2})
                continue
            single_on = (op in ("d_assign", "d_set_value") and st["value"] == "On") or (op == "d_bool" and st["value"]) or op == "d_select"
            if res.error:
                if single_on or op == "d_selects":
                    viol.append({"clause": "C09.stick", "detail": f"operation raised {res.error}: the switch was not turned on; {ctx}", "facts": f2})
                else:
                    viol.append({"clause": "C09.stick", "detail": f"operation raised {res.error}; {ctx}", "facts": f2})
                break
            on_after = sum(1 for v in after.values() if v == "On")
            if rule == "OneOfMany" and ok_before and on_after != 1:
                viol.append({"clause": "C09.oneof", "detail": ctx, "facts": f2})
            elif rule == "AtMostOne" and ok_before and on_after > 1:
                viol.append({"clause": "C09.atmost", "detail": ctx, "facts": f2})
            elif rule == "AnyOfMany" and op in ("d_assign", "d_set_value", "d_bool", "d_select") and any(
                    after[k] != before[k] for k in after if k != st["el"]) and op != "d_select":
                viol.append({"clause": "C09.any", "detail": ctx, "facts": f2})
            elif single_on and after[st["el"]] != "On":
                viol.append({"clause": "C09.stick", "detail": ctx, "facts": f2})
            elif op == "d_selects" and not res.error:
                want = set(st["els"])
                got = {k for k, v in after.items() if v == "On"}
                if rule == "AnyOfMany" and got != want:
                    viol.append({"clause": "C09.stick", "detail": f"selected_values={sorted(want)} left {sorted(got)} on; {ctx}", "facts": f2})
                elif rule != "AnyOfMany" and len(want) == 1 and not want <= got:
                    viol.append({"clause": "C09.stick", "detail": f"selected_values={sorted(want)} left {sorted(got)} on; {ctx}", "facts": f2})
            # model agreement for single assignments (predicts forced-back-On and sibling flips)
            if not viol and op in ("d_assign", "d_set_value", "d_bool"):
                val = st["value"] if op != "d_bool" else ("On" if st["value"] else "Off")
                exp = apply_switch(rule, before, st["el"], val)
                if exp != after and ok_before:
                    viol.append({"clause": "C09.oneof" if rule == "OneOfMany" else ("C09.atmost" if rule == "AtMostOne" else "C09.any"),
                                 "detail": f"rule model predicts {exp}; {ctx}", "facts": f2})
        if not viol:
            sim.settle()
            quiescent_rule_check("at the end")
        if not viol:
            esc = [e for e in stack.escaped()]
            if esc or watchdog.S.tripped:
                viol.append({"clause": "C09.published", "detail": f"stack broke: {esc} {watchdog.S.tripped}", "facts": facts})
            # final: every client view equals the driver (convergence of the rule-relevant state)
            for node in stack.clients:
                if not node.started:
                    continue
                dev = node.client.get_device("SW")
                for vn in vspecs:
                    mv = dev.get_vector(vn) if dev else None
                    if mv is None:
                        continue
                    vals = {nme: mv.get_element(nme).value for nme in mv.list_elements()}
                    visible_truth = {k: v for k, v in cur(vn).items() if (vn, k) not in hidden}
                    if vn in ever_hidden or set(vals) != set(visible_truth):
                        continue  # visibility changed without a re-definition (the setter publishes nothing): membership is C01/C07's business
                    if vals != visible_truth:
                        viol.append({"clause": "C09.published", "detail": f"{node.name} ends with {vn}={vals}, driver has {cur(vn)}", "facts": facts})
                        break
        digest = sim.digest()
        vtime, steps = sim.loop.time(), sim.loop.steps
    sig = repr((sorted({t[:2] + (t[3] if len(t) > 3 else "",) for t in map(lambda x: tuple(map(str, x)), transitions)}), net["latency"], net["frag"]))
    return {"violations": viol[:1], "digest": digest, "probes": probes, "faults": faults, "steps": steps, "vtime": vtime, "sig": sig,
            "nontrivial": applied_ops >= 3,
            "extra": {"switch_transitions": [c01_hash(t) for t in transitions]},
            "sample": {"net": net, "rules": [v["rule"] for v in vspecs.values()], "steps": scen["steps"][:10]}}


def c01_hash(x):
    import hashlib
    return int.from_bytes(hashlib.sha256(repr(x).encode()).digest()[:8], "big")


def simplify(scen):
    yield from c01.simplify(scen)
