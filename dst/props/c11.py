"""C11 - garbage on the wire cannot hang, crash or bloat the receiver, and is skipped."""
from __future__ import annotations

import copy
import hashlib
import random
import xml.etree.ElementTree as ET

from indi.message import IndiMessage

from .. import watchdog
from ..gen import junk as J
from ..gen.messages import MsgGen, TOP_TAGS
from ..gen.spellings import library_style, rand_style, spell
from ..ref.structural import short, view_of_message, view_of_spec, view_of_xml
from ..worlds.bufferworld import make_world
from .c02 import _element_span

ID = "C11"
LEVEL = "exploration"
TECHNIQUE = "deterministic simulation with stream fault injection (junk / truncate / corrupt / splice) x seeded partitions through the real Buffer and read loops; step watchdog; contiguous-substring genuineness oracle"
RULE = ("scenario = valid messages interleaved with injected wire faults (junk from a fragment alphabet incl. imitating fragments, "
        "truncation at chosen or every position, corruption operators) x receive world x threshold {16,128,2048,None} x partition; "
        "distinct = different signature (class, world, threshold, fault kinds, partition shape, tag sequence); non-trivial = at "
        "least one fault actually present in the stream fed")
COMPONENTS = {
    "real": ["indi.transport.buffer.Buffer", "indi.message (parser)", "server/client TCP ConnectionHandler read loops", "TTY read loop",
             "asyncio streams", "aiofiles wrappers"],
    "stub": ["SimLoop, SimNet, SimPool/SimPipeFile", "Router (RecordingRouter)", "peer (RawPeer)"],
}
ASSUMPTIONS = [
    "input alphabet is Latin-1 (what the transports' latin1 decode can produce)",
    "'imitating' junk = junk that contributes or completes an occurrence of '<'+registered tag name; nodelay is only demanded for non-imitating junk",
    "resync is only demanded with a threshold enabled, for valid messages no longer than the threshold, after a filler longer than the threshold",
    "elements that get truncated or corrupted are spelled without CDATA sections and comments (an opened one absorbs what follows up to its terminator - XML semantics, not a framing fault); intact messages use them",
    "watchdog budget 20000+1000*(R+1)+300*(G+1)*(R+1) line events per process() call (G,R = number of > and < buffered at entry), capped at 5e7",
]
CHUNK_WALL_S = 120
HANG_S = 30
QUICK_RUNS = 8000
QUICK_BUDGET_S = 120
THOROUGH_BUDGET_S = 360
CHUNK = 60
STEP_KEYS = ("steps",)


def _spell_step(st, tty):
    t = spell(st["spec"], st["style"])
    if tty and not t.endswith("\n"):
        t += "\n"
    return t


def build(scen, trunc_at=None):
    """-> stream, valid [(start,end,view)], damage [(start,end)], faults {kind:n}"""
    tty = scen["world"] == "tty"
    pos = 0
    parts = []
    valid = []
    damage = []
    faults = {}
    for st in scen["steps"]:
        k = st["kind"]
        if k == "msg":
            t = _spell_step(st, tty)
            s, e = _element_span(t)
            valid.append((pos + s, pos + e, view_of_spec(st["spec"])))
        elif k == "junk":
            t = st["text"]
            if tty:
                t = t.replace("\x00", "")
            faults["junk"] = faults.get("junk", 0) + 1
        elif k == "filler":
            t = " " * st["n"] + ("\n" if tty else "")
            faults["filler"] = faults.get("filler", 0) + 1
        elif k in ("trunc", "corrupt"):
            # (no CDATA sections or comments in an element that is about to be damaged: cutting one open makes XML itself
            # absorb whatever follows up to the next "]]>" / "-->", so the messages after it would not be messages any more)
            full = spell(st["spec"], dict(st["style"], cdata=False, comments=False))
            s, e = _element_span(full)
            el = full[s:e]
            if k == "trunc":
                at = st["at"] if trunc_at is None or st["at"] != "sweep" else trunc_at
                if at == "sweep":
                    at = len(el) // 2
                at = max(1, min(len(el) - 1, at))
                t = el[:at]
                faults["truncate"] = faults.get("truncate", 0) + 1
            else:
                t, op = J.corrupt(el, random.Random(st["seed"]), st.get("force"))
                faults["corrupt_" + op] = faults.get("corrupt_" + op, 0) + 1
            if tty:
                t = t.replace("\x00", "") + "\n"
            damage.append((pos, pos + len(t)))
        else:
            raise ValueError(k)
        parts.append(t)
        pos += len(t)
    return "".join(parts), valid, damage, faults


def generate(seed, tier, index):
    rng = random.Random(seed)
    thorough = tier == "thorough"
    cls = rng.choice(["junk", "junk", "damage", "damage", "wild", "wild", "truncsweep"])
    world = rng.choice(["direct"] * 5 + ["server", "client", "client_blob", "tty"])
    if cls == "truncsweep":
        world = "direct"
    if cls in ("junk",):
        th = rng.choice([128, 2048, None])
    elif cls in ("damage", "truncsweep"):
        th = rng.choice([128, 2048])
    else:
        th = rng.choice([16, 128, 2048, None])
    small = th in (16, 128)
    gen = MsgGen(rng, charset=rng.choice(["ascii", "latin1"]), max_children=rng.choice([0, 1, 2] if small else [0, 1, 2, 4]),
                 text_len=4 if small else rng.choice([4, 12, 40]))
    steps = []

    def msg():
        spec = gen.message()
        style = library_style() if rng.random() < 0.3 else rand_style(rng)
        if small:
            style["decl"] = rng.choice([0, 1])
            style["indent"] = False
            style["pad"] = False
        return {"kind": "msg", "spec": spec, "style": style}

    n = rng.randint(1, 8 if thorough else 5)
    if cls == "junk":
        for _ in range(n):
            if rng.random() < 0.6:
                steps.append({"kind": "junk", "text": J.rand_junk(rng, imitating=False)})
            steps.append(msg())
        if rng.random() < 0.5:
            steps.append({"kind": "junk", "text": J.rand_junk(rng, imitating=False)})
    elif cls in ("damage", "truncsweep"):
        nbefore = rng.randint(0, 2)
        for _ in range(nbefore):
            steps.append(msg())
        m = msg()
        if cls == "truncsweep":
            steps.append({"kind": "trunc", "spec": m["spec"], "style": m["style"], "at": "sweep"})
        elif rng.random() < 0.5:
            full = spell(m["spec"], m["style"])
            s, e = _element_span(full)
            steps.append({"kind": "trunc", "spec": m["spec"], "style": m["style"], "at": rng.randint(1, max(1, e - s - 1))})
        else:
            steps.append({"kind": "corrupt", "spec": m["spec"], "style": m["style"], "seed": rng.randrange(1 << 30)})
            if rng.random() < 0.15:
                steps[-1]["spec"] = gen.message(rng.choice(["setNumberVector", "newNumberVector", "defNumberVector"]))
                if steps[-1]["spec"]["children"]:
                    steps[-1]["force"] = "bad_number"
        for _ in range(rng.randint(1, 3)):
            steps.append(msg())
        steps.append({"kind": "filler", "n": 0})
    else:  # wild
        for _ in range(n):
            r = rng.random()
            if r < 0.35:
                steps.append({"kind": "junk", "text": J.rand_junk(rng, imitating=True)})
            elif r < 0.5:
                m = msg()
                full = spell(m["spec"], m["style"])
                s, e = _element_span(full)
                steps.append({"kind": "trunc", "spec": m["spec"], "style": m["style"], "at": rng.randint(1, max(1, e - s - 1))})
            elif r < 0.65:
                m = msg()
                steps.append({"kind": "corrupt", "spec": m["spec"], "style": m["style"], "seed": rng.randrange(1 << 30)})
            else:
                steps.append(msg())
        if rng.random() < 0.3:
            steps.append({"kind": "filler", "n": rng.choice([17, 129, 2049])})
    pm = rng.random()
    if pm < 0.25:
        part = {"mode": "fixed", "n": rng.choice([1, 1, 2, 3, 7, 64, 1024])}
    elif pm < 0.4:
        part = {"mode": "all"}
    else:
        part = {"mode": "random", "k": rng.choice([1, 2, 3, 5, 10, 30]), "seed": rng.randrange(1 << 30)}
    scen = {"class": cls, "world": world, "threshold": th, "steps": steps, "partition": part}
    return repair(scen)


def repair(scen):
    if not scen["steps"]:
        return None
    stream, valid, damage, faults = build(scen)
    th = scen["threshold"]
    if scen["class"] in ("junk", "damage", "truncsweep") and isinstance(th, int):
        longest = max([e - s for s, e, _ in valid] + [1])
        if longest > th:
            th = longest
    scen["threshold_value"] = th
    if scen["class"] in ("damage", "truncsweep"):
        for st in scen["steps"]:
            if st["kind"] == "filler":
                st["n"] = th + 1
        if not any(st["kind"] == "filler" for st in scen["steps"]):
            return None
        if not damage:
            return None
    # cost guard: character-wise delivery of long streams is quadratic in the buffer algorithm
    part = scen["partition"]
    if part["mode"] == "fixed" and part["n"] < 16 and len(stream) > 700:
        scen["partition"] = {"mode": "fixed", "n": 64}
    if scen["class"] == "truncsweep":
        if part["mode"] == "fixed":
            scen["partition"] = {"mode": "random", "k": 3, "seed": len(stream)}
        elif part["mode"] == "random" and part["k"] > 5:
            part["k"] = 5
    return scen


def _pieces(scen, stream):
    p = scen["partition"]
    n = len(stream)
    if p["mode"] == "all":
        cuts = []
    elif p["mode"] == "fixed":
        cuts = list(range(p["n"], n, p["n"]))
    elif p["mode"] == "random":
        r = random.Random(p["seed"])
        k = min(p["k"], max(0, n - 1))
        cuts = sorted(r.sample(range(1, n), k)) if n > 1 else []
    else:
        cuts = sorted(c for c in set(p["cuts"]) if 0 < c < n)
    out, prev = [], 0
    for c in cuts + [n]:
        if c > prev:
            out.append(stream[prev:c])
        prev = c
    return out, cuts


def _genuine(stream, delivered_views):
    """Each delivered view must be the parse of a contiguous piece of the stream, in order, non-overlapping.
    Returns None if fine, else (index, view)."""
    prev_end = 0
    for i, v in enumerate(delivered_views):
        tag = v[0]
        needle = "<" + tag
        s = stream.find(needle, prev_end)
        found = False
        while s >= 0 and not found:
            e = stream.find(">", s)
            tries = 0
            while e >= 0:
                tries += 1
                try:
                    el = ET.fromstring(stream[s:e + 1])
                except ET.ParseError:
                    e = stream.find(">", e + 1)
                    continue
                except Exception:
                    break
                if _view_matches_xml(v, el):
                    prev_end = e + 1
                    found = True
                break
            if not found:
                s = stream.find(needle, s + 1)
        if not found:
            return (i, v)
    return None


_LEAF_TAGS = {f"{p}{k}" for p in ("one", "def") for k in ("Text", "Number", "Switch", "Light", "BLOB")}


def _view_matches_xml(v, el, top=True):
    """The library parser ignores unknown attributes, a vector's own text and whatever is nested inside a leaf
    element; so a delivered message is the parse of an element iff tag, every attribute it kept, its text (when it
    kept one) and all children agree."""
    tag, attrs, text, kids = v
    if el.tag != tag:
        return False
    for k, val in attrs:
        if el.attrib.get(k) != val:
            return False
    if text is not None:
        t = (el.text or "").strip()
        if t != text:
            return False
    sub = list(el)
    if (not top or tag in _LEAF_TAGS) and not kids:
        # a leaf (one*/def* element): the parser keeps its attributes and leading text and ignores anything nested inside
        # it, exactly as it ignores unknown attributes; the delivered leaf still is the parse of this element (the library
        # accepts oneLight also as a message of its own: the same holds for it at the top level)
        return True
    if len(sub) != len(kids):
        return False
    return all(_view_matches_xml(kv, ke, False) for kv, ke in zip(kids, sub))


def _is_subsequence(needles, hay):
    it = iter(hay)
    return all(any(h == n for h in it) for n in needles)


def _run(scen, stream, valid, damage, out):
    th = scen["threshold_value"]
    cls = scen["class"]
    world = make_world(scen["world"], th, seed=0)
    viol = out["violations"]
    facts = {"world": scen["world"], "class": cls, "threshold": "none" if th is None else th}
    pieces, cuts = _pieces(scen, stream)
    ctx = f"class={cls} world={scen['world']} threshold={th} pieces={len(pieces)} stream={stream[:200]!r}"
    nonimit = J.is_nonimitating(stream, [(s, e) for s, e, _ in valid]) and not damage
    first_damage = min([s for s, _ in damage], default=len(stream) + 1)
    try:
        fed = 0
        for piece in pieces:
            world.feed(piece)
            fed += len(piece)
            out["calls"] += 1
            if world.tripped():
                viol.append({"clause": "C11.term", "detail": f"{world.tripped()} after {fed} chars; {ctx}", "facts": facts})
                return
            if world.raised:
                viol.append({"clause": "C11.raise", "detail": f"{world.raised} after {fed} chars; {ctx}", "facts": facts})
                return
            for m in world.delivered:
                if not isinstance(m, IndiMessage):
                    viol.append({"clause": "C11.genuine", "detail": f"consumer received non-message {m!r}; {ctx}", "facts": facts})
                    return
            bl = world.buffer_len()
            if isinstance(th, int) and bl is not None and bl > th:
                viol.append({"clause": "C11.bound", "detail": f"{bl} chars retained > threshold {th} after {fed} chars; {ctx}", "facts": facts})
                return
            if bl is not None:
                out["max_retained"] = max(out["max_retained"], bl)
            # promptness for valid messages not preceded by anything imitating / damaged
            if scen["world"] == "tty":
                arrived = stream.rfind("\n", 0, fed) + 1
            else:
                arrived = fed
            if nonimit or damage:
                limit = len(stream) + 1 if nonimit else first_damage
                due = [v for s, e, v in valid if e <= arrived and e <= limit]
                got = [view_of_message(m) for m in world.delivered]
                if nonimit and cls == "junk":
                    if got[:len(due)] != due and len(got) >= len(due):
                        viol.append({"clause": "C11.nodelay", "detail": f"delivered {[short(g, 60) for g in got]} expected prefix {[short(d, 60) for d in due]}; {ctx}", "facts": facts})
                        return
                    if len(got) < len(due):
                        viol.append({"clause": "C11.nodelay", "detail": f"{len(got)} delivered but {len(due)} valid messages fully arrived after {fed} chars; {ctx}", "facts": facts})
                        return
                elif damage and cls in ("damage", "truncsweep"):
                    if got[:len(due)] != due:
                        viol.append({"clause": "C11.nodelay", "detail": f"messages before the damaged element not delivered promptly: got {len(got)} due {len(due)} after {fed} chars; {ctx}", "facts": facts})
                        return
        got = [view_of_message(m) for m in world.delivered]
        bad = _genuine(stream, got)
        if bad is not None:
            viol.append({"clause": "C11.genuine", "detail": f"delivered message {bad[0]} = {short(bad[1])} is not the parse of a contiguous, in-order piece of the input; {ctx}", "facts": facts})
            return
        if cls in ("damage", "truncsweep") and isinstance(th, int):
            last_damage_end = max(e for _, e in damage)
            after = [v for s, e, v in valid if s >= last_damage_end]
            before = [v for s, e, v in valid if e <= first_damage]
            if got[:len(before)] != before or not _is_subsequence(after, got[len(before):]):
                viol.append({"clause": "C11.resync", "detail": f"valid messages after the damaged element not all delivered: delivered {[g[0] for g in got]} expected to contain {[a[0] for a in after]} after {[b[0] for b in before]}; {ctx}", "facts": facts})
                return
            out["probes"]["resync_checked"] = out["probes"].get("resync_checked", 0) + 1
        if nonimit and cls == "junk":
            out["probes"]["nodelay_checked"] = out["probes"].get("nodelay_checked", 0) + 1
        if len(got) > len(valid):
            out["probes"]["delivered_from_inside_damage"] = out["probes"].get("delivered_from_inside_damage", 0) + 1
    finally:
        s = watchdog.S
        if s.min_headroom is not None:
            out["min_headroom"] = s.min_headroom if out["min_headroom"] is None else min(out["min_headroom"], s.min_headroom)
        out["max_lines"] = max(out["max_lines"], s.max_count)
        world.finish()


def execute(scen):
    out = {"violations": [], "calls": 0, "probes": {}, "min_headroom": None, "max_lines": 0, "max_retained": 0}
    cls = scen["class"]
    fl = {}
    if cls == "truncsweep":
        # truncate the damaged message at EVERY position
        st = next(s for s in scen["steps"] if s["kind"] == "trunc")
        full = spell(st["spec"], st["style"])
        s0, e0 = _element_span(full)
        n = 0
        for at in range(1, e0 - s0):
            stream, valid, damage, fl = build(scen, trunc_at=at)
            _run(scen, stream, valid, damage, out)
            n += 1
            if out["violations"]:
                out["violations"][0]["facts"]["trunc_at"] = at
                break
        out["probes"]["truncsweep_positions"] = n
        fl = {"truncate": n, "filler": n}
        stream = build(scen)[0]
    else:
        stream, valid, damage, fl = build(scen)
        _run(scen, stream, valid, damage, out)
    th = scen["threshold_value"]
    kinds = tuple(sorted(fl))
    sig = repr((cls, scen["world"], th, kinds, scen["partition"]["mode"], scen["partition"].get("n"),
                tuple((s["kind"], s.get("spec", {}).get("tag")) for s in scen["steps"])))
    digest = hashlib.sha256(repr((stream, out["violations"], out["calls"], out["max_lines"])).encode("utf-8", "backslashreplace")).hexdigest()
    extra = {"process_calls": out["calls"], "max_buffer_line_events_per_call": out["max_lines"], "max_retained_chars": out["max_retained"]}
    if out["min_headroom"] is not None:
        extra["min_watchdog_headroom_x"] = round(out["min_headroom"], 2)
    return {"violations": out["violations"], "digest": digest, "probes": out["probes"], "faults": fl, "steps": out["calls"],
            "vtime": 0.0, "sig": sig, "nontrivial": bool(fl), "extra": extra,
            "sample": {"class": cls, "world": scen["world"], "threshold": th, "partition": scen["partition"], "stream": stream[:300]}}


def simplify(scen):
    if scen["class"] == "truncsweep":
        res = execute(scen)
        if res["violations"] and "trunc_at" in res["violations"][0]["facts"]:
            c = copy.deepcopy(scen)
            c["class"] = "damage"
            for st in c["steps"]:
                if st["kind"] == "trunc":
                    st["at"] = res["violations"][0]["facts"]["trunc_at"]
            yield c
    if scen["partition"]["mode"] != "all":
        c = copy.deepcopy(scen)
        c["partition"] = {"mode": "all"}
        yield c
    if scen["world"] != "direct":
        c = copy.deepcopy(scen)
        c["world"] = "direct"
        yield c
    for i, st in enumerate(scen["steps"]):
        if st["kind"] == "junk" and len(st["text"]) > 1:
            for half in (st["text"][: len(st["text"]) // 2], st["text"][len(st["text"]) // 2:]):
                c = copy.deepcopy(scen)
                c["steps"][i]["text"] = half
                yield c
        if "style" in st and st["style"] != library_style():
            c = copy.deepcopy(scen)
            c["steps"][i]["style"] = library_style()
            c = repair(c)
            if c:
                yield c
