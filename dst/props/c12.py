"""C12 - no client message can take a driver, a connection or the server down."""
from __future__ import annotations

import base64
import copy
import json
import random

from indi.message import IndiMessage
from indi.transport.server import tcp as server_tcp

from ..env import Sim
from ..gen import drivers as G
from ..gen import values as V
from ..ref.device_model import apply_switch_write
from ..ref.xmlsplit import parse_elements
from ..simnet import NetConfig
from ..simpool import PoolConfig
from ..worlds.ops import apply_step
from ..worlds.stack import Stack
from .. import watchdog
from . import c01
from .c06 import snapshot

ID = "C12"
LEVEL = "fault_enumeration"
TECHNIQUE = "deterministic simulation with message-level fault injection: a catalogue of hostile-but-well-formed client messages injected at every position of seeded sessions, per target vector kind, over the real TCP handler, the real TTY handler (simulated thread pool) and direct router calls; survival, state, liveness of the sending and of an observing connection checked afterwards"
RULE = ("scenario = generated deployment x seeded session of valid traffic (handshakes, writes, device updates) x ONE hostile message "
        "(catalogue entry x target vector kind x layout: one line, or pretty-printed with line breaks and blank lines) injected at a chosen step index x transport {tcp, tty, direct} x network knobs; quick tier "
        "enumerates catalogue x kind x transport round-robin over run indices; distinct = (catalogue entry, target kind, transport, position "
        "class); non-trivial = the hostile message was actually delivered to the server")
COMPONENTS = dict(c01.COMPONENTS, real=c01.COMPONENTS["real"] + ["indi.transport.server.tty (TTY, ConnectionHandler) on SimPool", "aiofiles wrappers"],
                  stub=c01.COMPONENTS["stub"] + ["stub indiserver (stdin/stdout SimPipeFiles)", "raw hostile TCP peer"])
ASSUMPTIONS = [
    "both readings of 'ignored as far as it cannot be applied' pass: an element named validly with a valid value of the right kind may take that value or stay unchanged; everything else must be unchanged",
    "device-kind messages sent by a client may be relayed to other clients (the router routes by kind by design)",
    "liveness probes after the hostile message: a valid getProperties on the same connection is answered, a valid write is applied, a driver-side update reaches the sender and the observer",
]
CHUNK_WALL_S = 90  # ordinary chunks take a few seconds
HANG_S = 30
QUICK_RUNS = 6000
QUICK_BUDGET_S = 150
THOROUGH_BUDGET_S = 360
CHUNK = 25
STEP_KEYS = ("steps",)

CATALOGUE = ["unknown_device", "unknown_property", "unknown_element", "kind_mismatch", "bad_value_parse_ok", "bad_value_parser_rejects",
             "blob_wrong_size", "blob_nonnumeric_size", "blob_missing_size", "blob_bad_base64", "no_children", "duplicate_children",
             "mixed_children", "device_kind_from_client", "enableblob_unknown_device", "unregistered_message_tag",
             "enableblob_unregistered_sender", "getprops_odd", "empty_value", "blob_empty_wrong_size", "huge_number", "raw_bytes",
             "unsolicited_ping_reply"]
TRANSPORTS = ["tcp", "tty", "direct"]
ONE = {"Text": "oneText", "Number": "oneNumber", "Switch": "oneSwitch", "BLOB": "oneBLOB", "Light": "oneText"}
NEW = {"Text": "newTextVector", "Number": "newNumberVector", "Switch": "newSwitchVector", "BLOB": "newBLOBVector", "Light": "newTextVector"}


def _esc(s):
    return str(s).replace("&", "&amp;").replace("<", "&lt;").replace(">", "&gt;").replace('"', "&quot;").encode("ascii", "xmlcharrefreplace").decode("ascii")


def _valid_child(rng, kind, e):
    """-> (xml, (name, value-as-the-driver-should-hold-it))"""
    n = e["name"]
    if kind == "Text":
        t = "h" + V.rand_text(rng, 8, allow_empty=False).replace("\n", " ").replace("\t", " ").strip() + "x"
        return f'<oneText name="{n}">{_esc(t)}</oneText>', (n, t)
    if kind == "Number":
        txt, val = V.client_number(rng, e["format"])
        return f'<oneNumber name="{n}">{txt}</oneNumber>', (n, val)
    if kind == "Switch":
        v = rng.choice(["On", "Off"])
        return f'<oneSwitch name="{n}">{v}</oneSwitch>', (n, v)
    data = bytes(rng.randrange(256) for _ in range(rng.choice([1, 5, 20])))
    # (the format is free text; ".z" conventionally announces a compressed payload - these bytes are not a zlib stream, so the
    # only things to do with them are to keep them as they are or to refuse them)
    fmt = rng.choice([".bin", ".bin", ".fits.z", ".z", ".fits.fz"])
    return (f'<oneBLOB name="{n}" size="{len(data)}" format="{fmt}">{base64.b64encode(data).decode()}</oneBLOB>',
            (n, {"blob_hex": data.hex(), "format": fmt}))


def hostile(rng, entry, dev, v):
    """-> dict(xml, valid=[(name, value)...] in message order, parser_ok: bool)"""
    kind = v["kind"]
    els = list(v["elements"].values())
    e = rng.choice(els)
    tag = NEW[kind]
    wkind = kind if kind != "Light" else "Text"

    def wrap(children, device=dev, name=v["name"], t=tag):
        return f'<{t} device="{device}" name="{name}">{children}</{t}>\n'

    if kind == "Light":
        # lights are read-only by protocol: any write naming a light vector is a mismatch, nothing may change
        if entry in ("unknown_device",):
            return {"xml": wrap(f'<oneText name="{e["name"]}">Ok</oneText>', device="NOPE"), "valid": [], "parser_ok": True}
        if entry in ("unknown_property",):
            return {"xml": wrap(f'<oneText name="{e["name"]}">Ok</oneText>', name="NOPE"), "valid": [], "parser_ok": True}
        return {"xml": wrap(f'<oneText name="{e["name"]}">{rng.choice(["Ok", "Alert", "junk"])}</oneText>'), "valid": [], "parser_ok": True,
                "entry": "kind_mismatch"}
    cx, cv = _valid_child(rng, kind, e)
    if entry == "unknown_device":
        # a name no device has - including the empty name, a blank, and near misses of a real name
        nodev = rng.choice(["NOPE", "NOPE", "", "", " ", dev + " ", dev.lower() if dev.lower() != dev else dev + "x", dev[:-1]])
        return {"xml": wrap(cx, device=nodev), "valid": [], "parser_ok": True}
    if entry == "unknown_property":
        return {"xml": wrap(cx, name="NOPE_" + v["name"]), "valid": [], "parser_ok": True}
    if entry == "unknown_element":
        # a name the property does not have - incl. near misses: the name in another case, and the Python attribute under
        # which the driver's source declares the element (an internal key, not a protocol name)
        akey = next((k for k, x in v["elements"].items() if x is e), "e0")
        alt = rng.choice(["NOPE", "NOPE", akey, akey, e["name"].lower() if e["name"].lower() != e["name"] else e["name"] + "_", e["name"] + " "])
        bad = cx.replace(f'name="{e["name"]}"', f'name="{alt}"')
        return {"xml": wrap(bad), "valid": [], "parser_ok": True}
    if entry == "kind_mismatch":
        other = rng.choice([k for k in ("Text", "Number", "Switch", "BLOB") if k != kind])
        val = {"Text": "On", "Number": "1", "Switch": "On"}.get(other)
        if other == "BLOB":
            child = f'<oneBLOB name="{e["name"]}" size="1" format=".b">QQ==</oneBLOB>'
        else:
            child = f'<{ONE[other]} name="{e["name"]}">{val}</{ONE[other]}>'
        return {"xml": wrap(child, t=NEW[other]), "valid": [], "parser_ok": True}
    if entry == "bad_value_parse_ok":
        if kind == "Number":
            txt = "1.5" if V.is_sexa(e["format"]) else "12:30"
            return {"xml": wrap(f'<oneNumber name="{e["name"]}">{txt}</oneNumber>'), "valid": [], "parser_ok": True}
        if kind == "BLOB":
            return {"xml": wrap(f'<oneBLOB name="{e["name"]}" size="3" format=".b">!!notbase64!!</oneBLOB>'), "valid": [], "parser_ok": True}
        # text has no invalid values; switches are vocabulary-checked by the parser: fall through to a neutral case
        return {"xml": wrap(cx), "valid": [cv], "parser_ok": True, "entry": "valid_control"}
    if entry == "bad_value_parser_rejects":
        if kind == "Number":
            # not numbers - incl. long digit runs that stop being a number at the very end (a value with its unit, an exponent,
            # a second decimal point): whatever validates number syntax has to say no in reasonable time
            txt = rng.choice(["twelve", "twelve", "314159265358979323846264338327950288419716939937510 arcsec",
                              "1" * 48 + "e5", "12345678901234567890123456789012345678901234567890.6.7", "0:" + "9" * 60 + "x"])
            return {"xml": wrap(f'<oneNumber name="{e["name"]}">{txt}</oneNumber>'), "valid": [], "parser_ok": False}
        if kind == "Switch":
            return {"xml": wrap(f'<oneSwitch name="{e["name"]}">Maybe</oneSwitch>'), "valid": [], "parser_ok": False}
        return {"xml": wrap(cx), "valid": [cv], "parser_ok": True, "entry": "valid_control"}
    if entry == "raw_bytes":
        # raw (unescaped) non-ASCII bytes: single Latin-1 bytes (invalid as UTF-8) and UTF-8 multi-byte sequences, long enough
        # to straddle the transports' 1024-byte reads
        unit = rng.choice(["\xe9", "\xc3\xa9", "caf\xe9 \xfc\xdf", "\xe2\x82\xac"])
        if kind == "Text" and rng.random() < 0.5:
            t = "r" + unit * rng.choice([1, 3]) + "z"  # short: the resulting update must stay below the 2048-character threshold
            return {"xml": wrap(f'<oneText name="{e["name"]}">{t}</oneText>'), "valid": [(e["name"], t)], "parser_ok": True}
        junk = unit * (rng.choice([1, 20, 1200, 1500]) // len(unit) + 1)  # ignored anyway (unknown element): may be long
        bad = f'<{ONE[wkind]} name="NOPE{junk}"' + (' size="1" format=".b">QQ==' if kind == "BLOB" else ">" + ("On" if kind == "Switch" else "1")) + f'</{ONE[wkind]}>'
        return {"xml": wrap(bad), "valid": [], "parser_ok": True}
    if entry == "empty_value":
        n = e["name"]
        if kind == "BLOB":
            return {"xml": wrap(f'<oneBLOB name="{n}" size="0" format=".e"/>'), "valid": [(n, {"blob_hex": "", "format": ".e"})], "parser_ok": True}
        if kind == "Switch":
            return {"xml": wrap(f'<oneSwitch name="{n}"/>'), "valid": [], "parser_ok": False}
        child = f'<{ONE[kind]} name="{n}"></{ONE[kind]}>'
        return {"xml": wrap(child), "valid": [(n, None)], "parser_ok": True}
    if entry == "blob_empty_wrong_size":
        if kind != "BLOB":
            return {"xml": wrap(cx), "valid": [cv], "parser_ok": True, "entry": "valid_control"}
        return {"xml": wrap(f'<oneBLOB name="{e["name"]}" size="{rng.choice(["5", "x", "-1"])}" format=".b"/>'), "valid": [], "parser_ok": True}
    if entry == "huge_number":
        if kind != "Number":
            return {"xml": wrap(cx), "valid": [cv], "parser_ok": True, "entry": "valid_control"}
        txt = rng.choice(["1" + "0" * 400, "-" + "9" * 350, "1" + "0" * 5000, "0." + "0" * 400 + "1",
                          "1" + "0" * 400 + ".5", "-" + "9" * 320 + ".9", "9" * 309 + ".0", "1" + "0" * 400 + ".5", "-" + "9" * 320 + ".9"])  # (the dotted ones parse to +-infinity)
        # for an integer format the value is representable, so taking it is as acceptable as refusing it
        try:
            hv = [(e["name"], int(txt))] if "." not in txt and not V.is_sexa(e["format"]) else [(e["name"], float(txt))]
        except ValueError:
            hv = []
        if hv and isinstance(hv[0][1], float) and hv[0][1] in (float("inf"), float("-inf")):
            hv = []  # no format renders an infinity: it cannot be applied
        return {"xml": wrap(f'<oneNumber name="{e["name"]}">{txt}</oneNumber>'), "valid": hv, "parser_ok": True}
    if entry.startswith("blob_"):
        if kind != "BLOB":
            return {"xml": wrap(cx), "valid": [cv], "parser_ok": True, "entry": "valid_control"}
        n = e["name"]
        if entry == "blob_wrong_size":
            return {"xml": wrap(f'<oneBLOB name="{n}" size="999" format=".b">QUJD</oneBLOB>'), "valid": [], "parser_ok": True}
        if entry == "blob_nonnumeric_size":
            sz = rng.choice(["big", "1e999", "inf", "-inf", "nan", "3.5", "0x3", "1e3", " "])
            return {"xml": wrap(f'<oneBLOB name="{n}" size="{sz}" format=".b">QUJD</oneBLOB>'), "valid": [], "parser_ok": True}
        if entry == "blob_missing_size":
            return {"xml": wrap(f'<oneBLOB name="{n}" format=".b">QUJD</oneBLOB>'), "valid": [], "parser_ok": False}
        return {"xml": wrap(f'<oneBLOB name="{n}" size="3" format=".b">Q*J$</oneBLOB>'), "valid": [], "parser_ok": True}
    if entry == "no_children":
        return {"xml": rng.choice([wrap(""), f'<{tag} device="{dev}" name="{v["name"]}"/>\n']), "valid": [], "parser_ok": True}
    if entry == "duplicate_children":
        c2x, c2v = _valid_child(rng, kind, e)
        return {"xml": wrap(cx + c2x), "valid": [cv, c2v], "parser_ok": True}
    if entry == "mixed_children":
        bad = f'<{ONE[wkind]} name="NOPE">{ "On" if kind == "Switch" else ("1" if kind == "Number" else "x")}</{ONE[wkind]}>'
        if kind == "BLOB":
            bad = '<oneBLOB name="NOPE" size="1" format=".b">QQ==</oneBLOB>'
        e2 = rng.choice(els)
        c2x, c2v = _valid_child(rng, kind, e2)
        order = rng.choice([0, 1, 2])
        parts = [(cx, cv), (bad, None), (c2x, c2v)]
        if order == 1:
            parts = [(bad, None), (cx, cv), (c2x, c2v)]
        elif order == 2:
            parts = [(cx, cv), (c2x, c2v), (bad, None)]
        return {"xml": wrap("".join(p[0] for p in parts)), "valid": [p[1] for p in parts if p[1] is not None], "parser_ok": True}
    if entry == "device_kind_from_client":
        k = rng.choice(["def", "set", "del", "ping", "onelight"])
        if k == "def":
            x = f'<defTextVector device="{dev}" name="{v["name"]}" state="Ok" perm="rw"><defText name="{e["name"]}">evil</defText></defTextVector>\n'
        elif k == "set":
            x = f'<setTextVector device="{dev}" name="{v["name"]}" state="Alert"><oneText name="{e["name"]}">evil</oneText></setTextVector>\n'
        elif k == "del":
            x = f'<delProperty device="{dev}" name="{v["name"]}"/>\n'
        elif k == "ping":
            x = '<pingRequest uid="42"/>\n'
        else:
            x = f'<oneLight name="{e["name"]}">Alert</oneLight>\n'
        return {"xml": x, "valid": [], "parser_ok": True}
    if entry == "enableblob_unknown_device":
        return {"xml": f'<enableBLOB device="NOPE">{rng.choice(["Also", "Only", "Never"])}</enableBLOB>\n', "valid": [], "parser_ok": True}
    if entry == "unregistered_message_tag":
        return {"xml": f'<message device="{dev}" message="hello"/>\n', "valid": [], "parser_ok": False}
    if entry == "enableblob_unregistered_sender":
        return {"xml": f'<enableBLOB device="{dev}">Also</enableBLOB>\n', "valid": [], "parser_ok": True, "direct_sender": rng.choice(["none", "unregistered"])}
    if entry == "unsolicited_ping_reply":
        # a well-formed client message that addresses nothing and that nobody asked for (the only client message kind without a
        # name attribute); it is offered to every driver
        return {"xml": rng.choice(['<pingReply uid="abc"/>\n', '<pingReply uid=""/>\n', f'<pingReply uid="{dev}"></pingReply>\n']), "valid": [], "parser_ok": True}
    if entry == "getprops_odd":
        return {"xml": rng.choice([f'<getProperties version="9.9" device="{dev}" name="NOPE"/>\n', '<getProperties version="" />\n',
                                   f'<getProperties version="1.7" name="{v["name"]}"/>\n']), "valid": [], "parser_ok": True}
    raise ValueError(entry)


def relayout(xml, rng):
    """The same XML as a pretty printer (or a person typing into the TTY channel) would lay it out: line breaks, indentation and
    BLANK lines between the elements, before and after the message. White space between tags is not content."""
    sep = rng.choice(["\n", "\n\n", "\n  ", "\r\n\r\n", "\n\n\n    "])
    out = xml.replace("><", ">" + sep + "<")
    if rng.random() < 0.5:
        out = rng.choice(["\n", "\n\n", "\r\n"]) + out
    if rng.random() < 0.3:
        out = out.rstrip("\n") + "\n\n"
    return out


def generate(seed, tier, index):
    rng = random.Random(seed)
    G.SPICY_NAMES[0] = False
    thorough = tier == "thorough"
    # enumeration: catalogue x kind x transport round-robin over the run index, everything else seeded
    entry = CATALOGUE[index % len(CATALOGUE)]
    kind = ["Text", "Number", "Switch", "BLOB", "Light"][(index // len(CATALOGUE)) % 5]
    transport = TRANSPORTS[(index // (len(CATALOGUE) * 5)) % 3]
    if entry == "enableblob_unregistered_sender":
        transport = "direct"
    specs = []
    for i in range(rng.choice([1, 2])):
        s = G.gen_device(rng, f"DEV{i}", kinds=["Text", "Number", "Switch", "BLOB", "Light"], spicy=False, max_depth=1, max_groups=2)
        specs.append(s)
    # guarantee an enabled rw target vector of the wanted kind plus an enabled rw text vector for the liveness write
    g0 = next(iter(specs[0]["levels"][0]["groups"].values()))
    g0["enabled"] = True
    used_v = {v["name"] for s in specs for g in G.effective_groups(s).values() for v in g["vectors"].values()}
    tv = G.gen_vector(rng, kind, used_v, False)
    tv.update(enabled=True, perm="rw")
    for e in tv["elements"].values():
        e["enabled"] = True
    lv = G.gen_vector(rng, "Text", used_v, False, max_elements=2)
    lv.update(enabled=True, perm="rw")
    for e in lv["elements"].values():
        e["enabled"] = True
    g0["vectors"]["target"] = tv
    g0["vectors"]["live"] = lv
    # session of valid traffic
    n = rng.randint(4, 12)
    session = [{"op": "start_client", "c": 0}] + c01.gen_steps(rng, specs, 1, n - 1)
    session = [s for s in session if not (s["op"] == "c_write" and s["vec"] in (tv["name"], lv["name"]))
               and not (s["op"] == "d_venable" and s["vec"] in (tv["name"], lv["name"]))
               and not (s["op"] == "d_genable" and s["dev"] == specs[0]["name"] and s["group"] == g0["name"])]
    pos = rng.randint(1, len(session))
    h = hostile(rng, entry, specs[0]["name"], tv)
    h["entry"] = h.get("entry", entry)
    if rng.random() < 0.35 and entry != "raw_bytes":
        h["xml"] = relayout(h["xml"], rng)
        h["relayout"] = True
    steps = session[:pos] + [{"op": "hostile", **h}] + session[pos:]
    more = rng.randint(0, 2) if thorough else 0
    for _ in range(more):
        e2 = rng.choice([c for c in CATALOGUE if c != "enableblob_unregistered_sender"])
        h2 = hostile(rng, e2, specs[0]["name"], tv)
        h2["entry"] = h2.get("entry", e2)
        steps.insert(rng.randint(1, len(steps)), {"op": "hostile", **h2})
    net = {"latency": rng.choice(["zero", "lan", "slow"]), "frag": rng.choice(["whole", "fixed:7", "random", "coalesce"]), "hwm": rng.choice([64, 65536])}
    scen = {"devices": specs, "steps": steps, "net": net, "transport": transport, "target": tv["name"], "live": lv["name"],
            "write_handler": rng.random() < 0.5 or entry == "huge_number",
            "kind": kind, "seed": rng.randrange(1 << 30), "pos_class": "early" if pos <= 2 else ("late" if pos >= len(session) - 1 else "mid")}
    return json.loads(json.dumps(scen))  # exactly what a replay file holds (tuples become lists)


# ---------------------------------------------------------------------------------------
class Sender:
    """The connection the hostile message travels on."""

    def __init__(self, stack, transport):
        self.stack, self.kind = stack, transport
        sim = stack.sim
        if transport == "tcp":
            self.peer = stack.add_raw("hostile")
            sim.settle()
            self.handler = server_tcp.ConnectionHandler.connections[-1]
        elif transport == "tty":
            self.handler = [c for c in stack.router.clients if type(c).__module__.endswith("tty")][0]
        else:
            self.handler = None

    def send(self, xml):
        sim = self.stack.sim
        if self.kind == "tcp":
            sim.do(self.peer.send, xml.encode("latin1"))
        elif self.kind == "tty":
            self.stack.stdin_file.feed(xml if xml.endswith("\n") else xml + "\n")
        else:
            try:
                msg = IndiMessage.from_string(xml)
            except Exception:
                return "parser_rejects"  # (the harness's own parse: nothing reached the router)
            sim.do(self.stack.router.process_message, msg, self.direct_sender)

    def received(self):
        if self.kind == "tcp":
            return self.peer.text
        if self.kind == "tty":
            return self.stack.stdout_file.flushed_text
        return None

    def alive(self):
        if self.kind == "tcp":
            return (self.handler in self.stack.router.clients and self.handler in server_tcp.ConnectionHandler.connections
                    and not self.peer.transport.peer.is_closing() and self.peer.lost is None and not self.peer.eof)
        if self.kind == "tty":
            return self.handler in self.stack.router.clients and not self.stack.tty_task.done()
        return True


def execute(scen):
    net = scen["net"]
    cfg = NetConfig(latency=net["latency"], frag_default=net["frag"], hwm=net["hwm"])
    viol, probes, faults = [], {}, {}
    transport = scen["transport"]
    delivered = 0
    entries = []
    with Sim(scen["seed"], cfg, PoolConfig(workers=3)) as sim:
        handler_calls = [0]

        def extra_attrs(spec):
            # the target device's driver carries the kind of Write handler real drivers have: it converts the requested
            # number to device units.  A value the library goes on to refuse must never get as far as user code.
            if spec["name"] != scen["devices"][0]["name"] or scen["kind"] != "Number" or not scen.get("write_handler"):
                return None

            def extra(dct):
                from indi.device.events import Write, on
                gattr = next(iter(spec["levels"][-1]["groups"]))
                if gattr not in dct or "target" not in dct[gattr].vectors:
                    return {}
                srcs = list(dct[gattr].vectors["target"].elements.values())

                def to_device_units(self, event):
                    handler_calls[0] += 1
                    int(round(event.new_value * 100))

                return {"to_device_units": on(srcs if len(srcs) > 1 else srcs[0], Write)(to_device_units)}
            return extra

        stack = Stack(sim, scen["devices"], extra_attrs=extra_attrs, with_tty=(transport == "tty"))
        if scen.get("write_handler") and scen["kind"] == "Number":
            probes["target_has_write_handler"] = 1
        stack.add_client(start=False)
        observer = stack.clients[0]
        sender = Sender(stack, transport)

        class Unreg:  # an object the router has never seen
            def message_from_device(self, m):
                pass

        unreg = Unreg()
        dev0 = scen["devices"][0]["name"]
        live_vec, live_spec = stack.vec_obj(dev0, scen["live"])
        live_el = next(iter(live_spec["elements"].values()))["name"]
        serial = [0]
        spoofed = [False]
        for st in scen["steps"]:
            if viol:
                break
            op = st["op"]
            if op == "settle":
                sim.settle()
                continue
            if op == "gap":
                sim.gap(st)
                continue
            if op != "hostile":
                apply_step(stack, st)
                continue
            # ---- inject ----
            sim.settle()
            entry = st["entry"]
            entries.append(entry)
            facts = {"entry": entry, "kind": scen["kind"], "transport": transport, "parser_ok": st["parser_ok"]}
            ctx = f"hostile[{entry}] {st['xml'].strip()[:160]!r} via {transport}"
            before = snapshot(stack)
            mark_rx = len(sender.received() or "")
            sender.direct_sender = None
            if transport == "direct":
                ds = st.get("direct_sender")
                sender.direct_sender = None if ds in (None, "none") else unreg
                if not st["parser_ok"]:
                    probes["direct_world_parser_rejects"] = probes.get("direct_world_parser_rejects", 0) + 1
                    continue
                try:
                    if sender.send(st["xml"]) == "parser_rejects":
                        probes["direct_world_parser_rejects"] = probes.get("direct_world_parser_rejects", 0) + 1
                        continue
                except BaseException as e:  # noqa
                    viol.append({"clause": "C12.raise", "detail": f"Router.process_message raised {type(e).__name__}: {e}; {ctx}", "facts": facts})
                    break
            else:
                sender.send(st["xml"])
            faults[entry] = faults.get(entry, 0) + 1
            if st.get("relayout"):
                probes["message_laid_out_with_blank_lines:" + transport] = probes.get("message_laid_out_with_blank_lines:" + transport, 0) + 1
            delivered += 1
            sim.settle()
            if watchdog.S.tripped:
                viol.append({"clause": "C12.raise", "detail": f"watchdog {watchdog.S.tripped}; {ctx}", "facts": facts})
                break
            esc = [e for e in stack.escaped() if "ConnectionResetError" not in e and "BrokenPipe" not in e]
            if esc:
                viol.append({"clause": "C12.raise", "detail": f"escaped: {esc[:2]}; {ctx}", "facts": facts})
                break
            if not sender.alive():
                viol.append({"clause": "C12.open", "detail": f"the sending connection did not survive; {ctx}", "facts": facts})
                break
            # ---- state ----
            after = snapshot(stack)
            tvec, tspec = stack.vec_obj(dev0, scen["target"])
            allowed = {}
            if st["valid"] and tspec["kind"] == "Switch":
                cur = {e["name"]: before[(dev0, scen["target"], e["name"])] for e in tspec["elements"].values()}
                model = apply_switch_write(tspec["rule"], cur, st["valid"])
                for k, val in model.items():
                    allowed[(dev0, scen["target"], k)] = [val]
            else:
                for nme, val in st["valid"]:
                    if isinstance(val, dict):  # (BLOB values are kept as hex in the scenario: replay files are JSON)
                        val = (bytes.fromhex(val["blob_hex"]), val["format"])
                    allowed.setdefault((dev0, scen["target"], nme), []).append(val)
            for key, b in before.items():
                a = after[key]
                if a == b:
                    continue
                if key[2] == "#state":
                    continue
                ok = False
                for val in allowed.get(key, []):
                    if isinstance(val, float) or isinstance(val, int):
                        ok = ok or a == val
                        try:
                            ok = ok or abs(float(a) - float(val)) < 1e-4 * max(1, abs(val)) + 1e-3
                        except Exception:
                            pass
                    else:
                        ok = ok or a == val or (a or "") == (val or "")
                if not ok:
                    viol.append({"clause": "C12.state", "detail": f"{key} changed {str(b)[:60]!r} -> {str(a)[:60]!r}, not a validly named element/value of the message; {ctx}", "facts": facts})
                    break
            if viol:
                break
            # ---- liveness probes on the same connection ----
            serial[0] += 1
            uniq = f"alive{serial[0]}"
            if transport != "direct":
                sender.send(f'<getProperties version="1.7" device="{dev0}" name="{scen["live"]}"/>\n')
                sim.settle()
                rx = (sender.received() or "")[mark_rx:]
                if f'<defTextVector' not in rx or f'name="{scen["live"]}"' not in rx:
                    viol.append({"clause": "C12.open", "detail": f"a valid getProperties sent afterwards on the same connection was not answered (received {len(rx)} chars); {ctx}", "facts": facts})
                    break
                sender.send(f'<newTextVector device="{dev0}" name="{scen["live"]}"><oneText name="{live_el}">{uniq}</oneText></newTextVector>\n')
                sim.settle()
                got = stack.el_obj(dev0, scen["live"], live_el).value
                if got != uniq:
                    viol.append({"clause": "C12.after", "detail": f"a valid write sent afterwards was not applied (element holds {got!r}, sent {uniq!r}); {ctx}", "facts": facts})
                    break
                if not sender.alive():
                    viol.append({"clause": "C12.open", "detail": f"the sending connection died during the liveness probes; {ctx}", "facts": facts})
                    break
            # ---- a driver-side update reaches everybody ----
            uniq2 = f"upd{serial[0]}"
            apply_step(stack, {"op": "d_assign", "dev": dev0, "vec": scen["live"], "el": live_el, "value": uniq2})
            sim.settle()
            if observer.started:
                d = observer.client.get_device(dev0)
                mv = d.get_vector(scen["live"]) if d else None
                if mv is None or mv.get_element(live_el).value != uniq2:
                    viol.append({"clause": "C12.others", "detail": f"the observing client did not receive the next device update (sees {mv.get_element(live_el).value if mv else None!r}); {ctx}", "facts": facts})
                    break
            if entry == "device_kind_from_client":
                spoofed[0] = True  # from here on the observer may hold what the spoofed message told it
            if observer.started and not viol and not spoofed[0]:
                # (a device-kind message sent by a client is relayed to the other clients by design: it may legitimately
                #  put something into the observer's view that the device does not have)
                v2 = []
                for dname in stack.drivers:
                    c01.compare_view(sim, observer.name, observer.client, observer.model, observer.handshakes, stack, dname,
                                     stack.truth(dname), v2, facts, observer.applied)
                # BLOB state / payload presence across the two connections is C01's business (K01-K06), not a disturbance
                v2 = [x for x in v2 if not (x["facts"].get("kind") == "BLOB" and (x["clause"] == "C01.state" or x["facts"].get("missing_payload")))]
                if v2:
                    viol.append({"clause": "C12.others", "detail": f"after the hostile message the observing client's view no longer matches the device: {v2[0]['detail'][:300]}; {ctx}", "facts": facts})
                    break
            if transport != "direct" and uniq2 not in (sender.received() or "")[mark_rx:]:
                viol.append({"clause": "C12.open", "detail": f"the sending connection no longer receives device traffic; {ctx}", "facts": facts})
                break
        if not viol:
            sim.settle()
            esc = [e for e in stack.escaped() if "ConnectionResetError" not in e and "BrokenPipe" not in e]
            if esc:
                viol.append({"clause": "C12.raise", "detail": f"escaped at the end: {esc[:2]}", "facts": {"entry": entries[-1] if entries else None, "transport": transport}})
        digest = sim.digest()
        vtime, steps = sim.loop.time(), sim.loop.steps
    sig = repr((tuple(entries), scen["kind"], transport, scen["pos_class"]))
    return {"violations": viol, "digest": digest, "probes": probes, "faults": faults, "steps": steps, "vtime": vtime, "sig": sig,
            "nontrivial": delivered > 0, "extra": {"catalogue_cells": [c01_hash((e, scen["kind"], transport)) for e in entries]},
            "sample": {"transport": transport, "kind": scen["kind"], "hostile": [s["xml"][:200] for s in scen["steps"] if s["op"] == "hostile"]}}


def c01_hash(x):
    import hashlib
    return int.from_bytes(hashlib.sha256(repr(x).encode()).digest()[:8], "big")


def repair(scen):
    if not any(s["op"] == "hostile" for s in scen["steps"]):
        return None
    return scen


def simplify(scen):
    for k, v in (("latency", "zero"), ("frag", "whole"), ("hwm", 65536)):
        if scen["net"][k] != v:
            c = copy.deepcopy(scen)
            c["net"][k] = v
            yield c
    if scen["transport"] != "direct":
        c = copy.deepcopy(scen)
        c["transport"] = "tcp" if scen["transport"] == "tty" else "direct"
        yield c
    if len(scen["devices"]) > 1:
        c = copy.deepcopy(scen)
        c["devices"] = c["devices"][:1]
        c["steps"] = [s for s in c["steps"] if s.get("dev", "DEV0") == "DEV0" and s.get("device") in (None, "DEV0")]
        yield c
