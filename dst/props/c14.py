"""C14 - driver event contract: Write, then default update and publication, then Change; Read before return/publication."""
from __future__ import annotations

import copy
import random

from indi.device import Driver, properties
from indi.device.events import Change, Read, Write, on
from indi.routing import Router

from ..env import Sim
from ..ref.device_model import apply_switch
from ..simnet import NetConfig
from ..simpool import PoolConfig
from ..worlds.stack import Stack, ClientNode
from ..gen import drivers as G
from .. import watchdog
from . import c01

ID = "C14"
LEVEL = "exploration"
TECHNIQUE = "deterministic simulation: a driver with seeded handler configurations (plain/coroutine, vetoing, shared between elements) receives writes from a real client over the simulated wire and from driver-side code; a global trace of handler entries and router publications is checked against the event contract per operation"
RULE = ("scenario = handler configuration (0-2 handlers per event kind per element; plain or coroutine; vetoing or not; attached to one or two "
        "elements through the real @on; the driver is one class or a base + derived pair with handlers on both and decorated overrides) x element kinds (text, number, switch AnyOfMany/OneOfMany, read-refreshed text) x sequence of "
        "operations (client write of 1-2 elements, set_value(), direct assignment; changing and unchanged values; reads through "
        "getProperties and attribute access) x network knobs; distinct = (handler configuration shape, operation kinds, outcome classes "
        "vetoed/changed/unchanged/forced-back); non-trivial = at least one operation with at least one handler invoked")
COMPONENTS = c01.COMPONENTS
ASSUMPTIONS = [
    "for coroutine handlers 'invoked' means dispatched as a task whose body starts after the default action",
    "elements that carry Read handlers are only read, never written (a Read handler that resets the value during publication would make Change undefined)",
    "two instances of one driver class are outside the quantifier",
]
QUICK_RUNS = 1500
QUICK_BUDGET_S = 150
THOROUGH_BUDGET_S = 360
CHUNK = 30
STEP_KEYS = ("steps",)

ELEMENTS = [("TXT", "T0"), ("TXT", "T1"), ("NUM", "N0"), ("NUM", "N1"), ("ANY", "A0"), ("ANY", "A1"), ("ANY", "A2"),
            ("ONE", "O0"), ("ONE", "O1"), ("ONE", "O2")]


def generate(seed, tier, index):
    rng = random.Random(seed)
    thorough = tier == "thorough"
    handlers = []
    # the driver is one class, or a base driver class plus a derived one (handlers spread over both; some overridden)
    hier = rng.choice(["flat", "flat", "split", "override"])
    for vec, el in ELEMENTS:
        for kind in ("Write", "Change"):
            for _ in range(rng.choice([0, 0, 1, 1, 2])):
                h = {"kind": kind, "on": [[vec, el]], "coro": rng.random() < 0.35, "veto": kind == "Write" and rng.random() < 0.25}
                if rng.random() < 0.2:
                    # subscribed / unsubscribed at run time through the definition's public attach_event_handler API
                    h["dynamic"] = True
                    h["coro"] = False
                    # ... either a function, or the bound method of a helper object that nothing but the subscription refers to
                    h["orphan_owner"] = rng.random() < 0.4
                if rng.random() < 0.2:
                    other = rng.choice([e for e in ELEMENTS if e != (vec, el)])
                    h["on"].append(list(other))
                if not h.get("dynamic") and rng.random() < 0.12:
                    # one and the same method subscribed to both event kinds of the element (an audit / logging handler)
                    h["also"] = "Change" if kind == "Write" else "Write"
                if hier != "flat" and not h.get("dynamic"):
                    h["where"] = rng.choice(["base", "derived"])
                    if hier == "override" and rng.random() < 0.5:
                        # the derived driver overrides the base driver's handler method (same name) and decorates the override for
                        # the same element and event: the override is the one subscribed handler, the base method is shadowed
                        h["where"], h["overridden"] = "derived", True
                handlers.append(h)
    read_mode = rng.choice(["none", "plain", "plain2", "coro"])
    disabled_vec = rng.choice([None, None, None, "TXT", "NUM", "ANY"])
    steps = [{"op": "start"}]
    for _ in range(rng.randint(3, 30 if thorough else 12)):
        vec, el = rng.choice(ELEMENTS)
        r = rng.random()
        if vec == "TXT":
            val = rng.choice(["alpha", "beta", "alpha", "g\xe9", "x<y"])
        elif vec == "NUM":
            # (incl. two Julian dates one second apart: different values whose relative difference is 5e-12)
            val = rng.choice([1.5, 2.25, 1.5, -3.0, 0.0, 2460000.5, 2460000.500012, 2460000.5])
        else:
            val = rng.choice(["On", "Off"])
        if vec == "NUM" and rng.random() < 0.15:
            # two different values closer to one another than 1e-9 relative, one after the other (a real change)
            a, b = rng.choice([(2460000.5, 2460000.500012), (1700000000.0, 1700000001.0), (1e-12, 2e-12)])
            steps.append({"op": rng.choice(["set_value", "assign"]), "vec": vec, "el": el, "value": a})
            steps.append({"op": rng.choice(["set_value", "assign"]), "vec": vec, "el": el, "value": b})
            continue
        if r < 0.45:
            st = {"op": "client_write", "vec": vec, "els": [[el, val]]}
            if rng.random() < 0.2:
                others = [e for v, e in ELEMENTS if v == vec and e != el]
                e2 = rng.choice(others)
                st["els"].append([e2, val if vec != "TXT" else "second"])
                if vec == "NUM" and rng.random() < 0.5:
                    # one member of the write carries a text its format cannot take (legal for the client API, unusable for
                    # the driver): it is ignored - no Write event, no update - and the other member is written as usual
                    st["bad"] = rng.choice([el, e2])
            steps.append(st)
        elif r < 0.65:
            steps.append({"op": "set_value", "vec": vec, "el": el, "value": val})
        elif r < 0.85:
            steps.append({"op": "assign", "vec": vec, "el": el, "value": val})
        elif r < 0.9:
            dyn = [i for i, h in enumerate(handlers) if h.get("dynamic")]
            if dyn:
                steps.append({"op": rng.choice(["attach", "attach", "detach"]), "hid": rng.choice(dyn)})
        elif r < 0.93:
            steps.append({"op": "publish_blob", "via": rng.choice(["state", "sibling"])})
        elif r < 0.96:
            steps.append({"op": "read_attr"})
            if rng.random() < 0.5:
                steps[-1]["raises"] = True  # the hardware poll behind the Read handler fails this once (IOError)
                steps.append({"op": rng.choice(["read_attr", "getprops"])})
        else:
            steps.append({"op": "getprops"})
    net = {"latency": rng.choice(["zero", "lan", "slow"]), "frag": rng.choice(["whole", "fixed:7", "random", "coalesce"]), "hwm": 65536}
    # declared permissions of the writable vectors: command-like properties are write-only, and a client's write to them
    # reaches the handlers exactly like one to a read-write property
    perms = {v: rng.choice(["rw", "rw", "wo"]) for v in ("TXT", "NUM", "ANY", "ONE")}
    return {"handlers": handlers, "hier": hier, "read_mode": read_mode, "disabled_vec": disabled_vec, "steps": steps, "net": net,
            "perms": perms, "seed": rng.randrange(1 << 30)}


def build_driver(scen, trace, sim):
    """Builds a fresh Driver class with the scenario's handlers attached through the real @on decorator."""
    perms = scen.get("perms") or {}
    grp = properties.Group("MAIN", vectors=dict(
        txt=properties.TextVector("TXT", perm=perms.get("TXT", "rw"), enabled=scen["disabled_vec"] != "TXT", elements=dict(
            t0=properties.Text("T0", default="init"), t1=properties.Text("T1", default="init"))),
        num=properties.NumberVector("NUM", perm=perms.get("NUM", "rw"), enabled=scen["disabled_vec"] != "NUM", elements=dict(
            n0=properties.Number("N0", default=0.0, format="%.2f", min=0, max=0), n1=properties.Number("N1", default=0.0, format="%.2f", min=0, max=0))),
        any=properties.SwitchVector("ANY", rule="AnyOfMany", perm=perms.get("ANY", "rw"), enabled=scen["disabled_vec"] != "ANY", elements=dict(
            a0=properties.Switch("A0"), a1=properties.Switch("A1"), a2=properties.Switch("A2"))),
        one=properties.SwitchVector("ONE", rule="OneOfMany", default_on="O0", perm=perms.get("ONE", "rw"), elements=dict(
            o0=properties.Switch("O0"), o1=properties.Switch("O1"), o2=properties.Switch("O2"))),
        rd=properties.TextVector("RD", elements=dict(r0=properties.Text("R0", default="stale"))),
        img=properties.BLOBVector("IMG", elements=dict(b0=properties.BLOB("B0"), b1=properties.BLOB("B1"))),
    ))
    attr = {"T0": ("txt", "t0"), "T1": ("txt", "t1"), "N0": ("num", "n0"), "N1": ("num", "n1"), "A0": ("any", "a0"), "A1": ("any", "a1"),
            "A2": ("any", "a2"), "O0": ("one", "o0"), "O1": ("one", "o1"), "O2": ("one", "o2"), "R0": ("rd", "r0")}

    def eldef(el):
        v, e = attr[el]
        return grp.vectors[v].elements[e]

    dct = {"name": "EV", "main": grp}
    placement, shadow = {}, {}
    cls_kind = {"Write": Write, "Change": Change, "Read": Read}
    dynamic = {}
    for i, h in enumerate(scen["handlers"]):
        srcs = [eldef(el) for _, el in h["on"]]
        if h.get("dynamic"):
            def drec(event, hid=i, h=h):
                trace.append({"t": sim.loop.time(), "what": "handler", "hid": hid, "kind": h["kind"], "coro": False, "el": event.element.name,
                              "vec": event.vector.name, "at_entry": event.element._value, "new": getattr(event, "new_value", None),
                              "old": getattr(event, "old_value", None)})
                if h["veto"]:
                    event.prevent_default = True
            dynamic[i] = {"srcs": srcs, "type": cls_kind[h["kind"]], "cb": drec, "uids": None}
            continue

        def rec(event, hid=i, h=h):
            entry = {"t": sim.loop.time(), "what": "handler", "hid": hid, "kind": type(event).__name__, "coro": h["coro"], "el": event.element.name,
                     "siblings": {e.name: e._value for e in event.vector._elements.values()} if event.vector.name in ("ANY", "ONE") else None,
                     "vec": event.vector.name, "at_entry": event.element._value, "new": getattr(event, "new_value", None),
                     "old": getattr(event, "old_value", None)}
            trace.append(entry)
            if h["veto"] and isinstance(event, Write):
                event.prevent_default = True

        if h["coro"]:
            async def fn(self, event, rec=rec):
                rec(event)
        else:
            def fn(self, event, rec=rec):
                rec(event)
        fn.__name__ = f"h{i}"
        dct[f"h{i}"] = on(srcs if len(srcs) > 1 else srcs[0], cls_kind[h["kind"]])(fn)
        if h.get("also"):
            dct[f"h{i}"] = on(srcs if len(srcs) > 1 else srcs[0], cls_kind[h["also"]])(dct[f"h{i}"])
        placement[f"h{i}"] = h.get("where", "derived")
        if h.get("overridden"):
            def shadowed(self, event, hid=i, h=h):
                trace.append({"t": sim.loop.time(), "what": "handler", "hid": f"shadowed{hid}", "kind": h["kind"], "coro": False,
                              "el": event.element.name, "vec": event.vector.name, "at_entry": event.element._value,
                              "new": getattr(event, "new_value", None), "old": getattr(event, "old_value", None)})
            shadowed.__name__ = f"h{i}"
            shadow[f"h{i}"] = on(srcs if len(srcs) > 1 else srcs[0], cls_kind[h["kind"]])(shadowed)
    rm = scen["read_mode"]
    read_fault = scen["_read_fault"] = {"armed": False}
    reads = [0]
    installed = []  # every (payload, format) a Read handler of B0 installed, in order
    if rm != "none":
        def rrec(event, tag):
            reads[0] += 1
            trace.append({"t": sim.loop.time(), "what": "handler", "hid": tag, "kind": "Read", "coro": rm == "coro", "el": "R0", "vec": "RD",
                          "at_entry": event.element._value})
            if read_fault["armed"] and rm != "coro":
                read_fault["armed"] = False
                raise IOError("sim: the instrument did not answer the poll")
            if rm != "coro":
                event.element.reset_value(f"fresh{reads[0]}")
        if rm == "coro":
            async def r1(self, event):
                rrec(event, "r1")
        else:
            def r1(self, event):
                rrec(event, "r1")
        dct["r1"] = on(eldef("R0"), Read)(r1)
        if rm == "plain2":
            def r2(self, event):
                rrec(event, "r2")
            dct["r2"] = on(eldef("R0"), Read)(r2)
    if rm in ("plain", "plain2"):
        # a BLOB that has never been assigned, supplied on demand by a plain Read handler (camera frame fetched lazily)
        def rblob(self, event):
            from indi.device.values import BLOB as BlobValue
            reads[0] += 1
            trace.append({"t": sim.loop.time(), "what": "handler", "hid": "rb", "kind": "Read", "coro": False, "el": "B0", "vec": "IMG",
                          "at_entry": event.element._value})
            # every fetch yields a different frame (different length and format), as a real camera would
            frame = BlobValue(b"frame%d" % reads[0] + b"." * (reads[0] % 7), ".f%d" % (reads[0] % 3))
            installed.append((frame.binary, frame.format))
            event.element.reset_value(frame)
        dct["rblob"] = on(grp.vectors["img"].elements["b0"], Read)(rblob)
    if scen.get("hier", "flat") == "flat":
        return type("EvDriver", (Driver,), dct), attr, dynamic, installed
    base_dct = {k: v for k, v in dct.items() if k in ("name", "main") or placement.get(k) == "base"}
    base_dct.update(shadow)
    der_dct = {k: v for k, v in dct.items() if k not in base_dct or k in shadow}
    base = type("EvBase", (Driver,), base_dct)
    return type("EvDriver", (base,), der_dct), attr, dynamic, installed


def execute(scen):
    net = scen["net"]
    cfg = NetConfig(latency=net["latency"], frag_default=net["frag"], hwm=net["hwm"])
    viol, probes = [], {}
    facts = {}
    outcomes = set()
    invoked_any = False
    with Sim(scen["seed"], cfg, PoolConfig()) as sim:
        trace = []
        cls, attr, dynamic, installed = build_driver(scen, trace, sim)
        stack = Stack(sim, [])
        drv = cls(router=stack.router)
        stack.drivers["EV"] = drv
        if scen.get("hier", "flat") != "flat":
            probes["driver_class_hierarchy:" + scen["hier"]] = 1

        def pub_hook(origin, sender, message):
            if origin == "driver" and message.tag_name().startswith("set"):
                trace.append({"t": sim.loop.time(), "what": "publish", "vec": message.name,
                              "values": {c.name: c.value for c in message.children},
                              "sizes": {c.name: getattr(c, "size", None) for c in message.children},
                              "formats": {c.name: getattr(c, "format", None) for c in message.children}})
            if origin == "driver" and message.tag_name().startswith("def"):
                trace.append({"t": sim.loop.time(), "what": "publish_def", "vec": message.name,
                              "values": {c.name: c.value for c in message.children}})

        stack.hooks.append(pub_hook)
        node = stack.add_client(start=False)

        def el_obj(el):
            v, e = attr[el]
            return getattr(getattr(drv.main, v), e)

        def vec_enabled(vec):
            return vec != scen["disabled_vec"]

        def subscribed(kind, vec, el):
            return [i for i, h in enumerate(scen["handlers"]) if kind in (h["kind"], h.get("also")) and [vec, el] in h["on"]
                    and (not h.get("dynamic") or dynamic[i]["uids"] is not None)]

        def check_element_op(opname, vec, el, requested, old, mark, raised_write, ctx):
            """Checks the contract for one element operation from trace[mark:]."""
            nonlocal invoked_any
            seg = trace[mark:]
            f2 = dict(facts, op=opname, vec=vec)
            hs = [e for e in seg if e["what"] == "handler" and e["el"] == el and e["vec"] == vec]
            pubs = [e for e in seg if e["what"] == "publish" and e["vec"] == vec]
            if hs:
                invoked_any = True
            for e in hs:
                if str(e["hid"]).startswith("shadowed"):
                    viol.append({"clause": "C14.write_once", "detail": f"the base driver's handler method {e['hid'][8:]} was invoked although the derived driver overrides it; {ctx}", "facts": f2})
                    return None
            # Write
            wsub = subscribed("Write", vec, el)
            for hid in wsub:
                n = sum(1 for e in hs if e["hid"] == hid and e["kind"] == "Write")
                want = 1 if raised_write else 0
                if n != want:
                    viol.append({"clause": "C14.write_once", "detail": f"Write handler h{hid} invoked {n} times, expected {want}; {ctx}", "facts": f2})
                    return None
            for e in hs:
                if e["kind"] == "Write":
                    if e["new"] != requested:
                        viol.append({"clause": "C14.write_once", "detail": f"Write handler h{e['hid']} saw new_value {e['new']!r}, requested {requested!r}; {ctx}", "facts": f2})
                        return None
            vetoed = raised_write and any(scen["handlers"][hid]["veto"] and not scen["handlers"][hid]["coro"] for hid in wsub)
            # expected final value
            if vetoed:
                final = old
            elif vec in ("ANY", "ONE"):
                cur = ctx_state[vec]
                final = apply_switch("AnyOfMany" if vec == "ANY" else "OneOfMany", cur, el, requested)[el]
            else:
                final = requested
            got = el_obj(el)._value
            if vetoed:
                outcomes.add("vetoed")
                if vec in ("ANY", "ONE") and switch_state(vec) != ctx_state[vec]:
                    viol.append({"clause": "C14.veto", "detail": f"vetoed write changed the property: {ctx_state[vec]} -> {switch_state(vec)}; {ctx}", "facts": f2})
                    return None
                if got != old:
                    viol.append({"clause": "C14.veto", "detail": f"vetoed write changed the value {old!r} -> {got!r}; {ctx}", "facts": f2})
                    return None
                if pubs:
                    viol.append({"clause": "C14.veto", "detail": f"vetoed write published {len(pubs)} update(s); {ctx}", "facts": f2})
                    return None
                if any(e["kind"] == "Change" for e in hs):
                    viol.append({"clause": "C14.veto", "detail": f"vetoed write raised Change; {ctx}", "facts": f2})
                    return None
                return got
            if got != final:
                viol.append({"clause": "C14.publish", "detail": f"element holds {got!r}, expected {final!r}; {ctx}", "facts": f2})
                return None
            # order of plain/coroutine Write handlers
            for e in hs:
                if e["kind"] == "Write" and not e["coro"] and e.get("siblings") is not None and vec in ctx_state and e["siblings"] != ctx_state[vec]:
                    viol.append({"clause": "C14.order", "detail": f"plain Write handler h{e['hid']} ran after the property had changed (saw {e['siblings']}, state before the write {ctx_state[vec]}); {ctx}", "facts": f2})
                    return None
                if e["kind"] == "Write" and not e["coro"] and e["at_entry"] != old:
                    viol.append({"clause": "C14.order", "detail": f"plain Write handler h{e['hid']} ran after the value changed (saw {e['at_entry']!r}, old value {old!r}); {ctx}", "facts": f2})
                    return None
                if e["kind"] == "Write" and e["coro"]:
                    idx = seg.index(e)
                    if vec_enabled(vec) and not any(x["what"] == "publish" and x["vec"] == vec for x in seg[:idx]):
                        viol.append({"clause": "C14.order", "detail": f"coroutine Write handler h{e['hid']} started before the default action was published; {ctx}", "facts": f2})
                        return None
            # publication
            want_pubs = 1 if vec_enabled(vec) else 0
            if len(pubs) != want_pubs:
                viol.append({"clause": "C14.publish", "detail": f"{len(pubs)} updates published for {vec}, expected {want_pubs}; {ctx}", "facts": f2})
                return None
            if pubs:
                pv = pubs[0]["values"].get(el)
                exp_txt = final if vec != "NUM" else "%.2f" % final
                if str(pv).strip() != str(exp_txt):
                    viol.append({"clause": "C14.publish", "detail": f"published update carries {el}={pv!r}, expected {exp_txt!r}; {ctx}", "facts": f2})
                    return None
            # Change
            csub = subscribed("Change", vec, el)
            changed = final != old
            outcomes.add("changed" if changed else ("forced_back" if (vec == "ONE" and requested != final) else "unchanged"))
            for hid in csub:
                es = [e for e in hs if e["hid"] == hid and e["kind"] == "Change"]
                want = 1 if changed else 0
                if len(es) != want:
                    viol.append({"clause": "C14.change", "detail": f"Change handler h{hid} invoked {len(es)} times, expected {want} (old {old!r}, new {final!r}); {ctx}", "facts": f2})
                    return None
                for e in es:
                    if e["old"] != old or e["new"] != final:
                        viol.append({"clause": "C14.change", "detail": f"Change handler h{hid} got ({e['old']!r}, {e['new']!r}), expected ({old!r}, {final!r}); {ctx}", "facts": f2})
                        return None
                    if vec_enabled(vec):
                        idx = seg.index(e)
                        if not any(x["what"] == "publish" and x["vec"] == vec for x in seg[:idx]):
                            viol.append({"clause": "C14.change", "detail": f"Change handler h{hid} ran before the update was published; {ctx}", "facts": f2})
                            return None
            return got

        ctx_state = {}

        def switch_state(vec):
            names = [e for v, e in ELEMENTS if v == vec]
            return {n: el_obj(n)._value for n in names}

        for st in scen["steps"]:
            if viol:
                break
            op = st["op"]
            if op == "start":
                node.start()
                sim.settle()
                continue
            sim.settle()
            mark = len(trace)
            if op in ("attach", "detach"):
                d = dynamic[st["hid"]]
                if op == "attach" and d["uids"] is None:
                    if scen["handlers"][st["hid"]].get("orphan_owner"):
                        class Helper:
                            def __init__(self, fn):
                                self.fn = fn

                            def on_event(self, event):
                                return self.fn(event)

                        d["uids"] = [(src, src.attach_event_handler(d["type"], Helper(d["cb"]).on_event)) for src in d["srcs"]]
                        probes["handler_is_method_of_an_object_nobody_else_holds"] = 1
                    else:
                        d["uids"] = [(src, src.attach_event_handler(d["type"], d["cb"])) for src in d["srcs"]]
                    probes["handler_attached_at_run_time"] = probes.get("handler_attached_at_run_time", 0) + 1
                elif op == "detach" and d["uids"] is not None:
                    for src, uid in d["uids"]:
                        src.detach_event_handler(uid)
                    d["uids"] = None
                    probes["handler_detached_at_run_time"] = probes.get("handler_detached_at_run_time", 0) + 1
                continue
            if op in ("set_value", "assign"):
                vec, el, val = st["vec"], st["el"], st["value"]
                old = el_obj(el)._value
                if vec in ("ANY", "ONE"):
                    ctx_state[vec] = switch_state(vec)
                ctx = f"{op} {vec}.{el}={val!r} (old {old!r})"
                try:
                    if op == "set_value":
                        sim.do(el_obj(el).set_value, val)
                    else:
                        sim.do(setattr, el_obj(el), "value", val)
                except Exception as e:  # noqa
                    viol.append({"clause": "C14.publish", "detail": f"operation raised {type(e).__name__}: {e}; {ctx}", "facts": facts})
                    break
                sim.settle()
                check_element_op(op, vec, el, val, old, mark, op == "set_value", ctx)
            elif op == "client_write":
                vec = st["vec"]
                dev = node.client.get_device("EV")
                mv = dev.get_vector(vec) if dev else None
                if mv is None:
                    probes["write_skipped_not_in_mirror"] = probes.get("write_skipped_not_in_mirror", 0) + 1
                    continue
                olds = {el: el_obj(el)._value for el, _ in st["els"]}
                if vec in ("ANY", "ONE"):
                    ctx_state[vec] = switch_state(vec)
                order = mv.list_elements()
                # (a number travels as the text its format renders: what the driver is asked for is that text's value)
                pairs = sorted({e: (float("%.2f" % v) if vec == "NUM" else v) for e, v in st["els"]}.items(), key=lambda p: order.index(p[0]))

                bad = st.get("bad") if len(pairs) > 1 else None

                def submit():
                    for el, val in pairs:
                        mv.get_element(el).value = "1:30" if el == bad else (("%.2f" % val) if vec == "NUM" else val)
                    mv.submit()
                sim.do(submit)
                sim.settle()
                # per child, in message order; the trace is segmented by Write-handler-independent markers: publications
                # (each applied child publishes at most once), so check children sequentially on the whole segment when single
                if len(pairs) == 1:
                    el, val = pairs[0]
                    check_element_op(op, vec, el, val, olds[el], mark, True, f"client write {vec}.{el}={val!r} (old {olds[el]!r})")
                else:
                    probes["multi_element_write"] = probes.get("multi_element_write", 0) + 1
                    # weaker but sound check for multi-element writes: every subscribed Write handler exactly once per named element
                    seg = trace[mark:]
                    if bad:
                        probes["write_with_one_unusable_member"] = probes.get("write_with_one_unusable_member", 0) + 1
                    for el, val in pairs:
                        for hid in subscribed("Write", vec, el):
                            n = sum(1 for e in seg if e["what"] == "handler" and e["hid"] == hid and e["kind"] == "Write" and e["el"] == el)
                            want_n = 0 if el == bad else 1
                            if n != want_n:
                                viol.append({"clause": "C14.write_once", "detail": f"Write handler h{hid} invoked {n} times for {el} in a two-element write, expected {want_n}"
                                             + (f" (the other member, {bad}, carried an unusable value)" if bad and el != bad else ""), "facts": facts})
                    npub = sum(1 for e in seg if e["what"] == "publish" and e["vec"] == vec)
                    vetoes = sum(1 for el, _ in pairs if el != bad and any(scen["handlers"][h]["veto"] and not scen["handlers"][h]["coro"] for h in subscribed("Write", vec, el)))
                    want = (len(pairs) - vetoes - (1 if bad else 0)) if vec_enabled(vec) else 0
                    if npub != want and not viol:
                        viol.append({"clause": "C14.publish", "detail": f"two-element write published {npub} updates, expected {want}", "facts": facts})
            elif op == "publish_blob":
                if scen["read_mode"] not in ("plain", "plain2"):
                    continue
                import base64
                from indi.device.values import BLOB as BlobValue
                if st["via"] == "state":
                    sim.do(setattr, drv.main.img, "state_", ["Busy", "Ok", "Alert"][len(trace) % 3])
                else:
                    sim.do(setattr, drv.main.img.b1, "value", BlobValue(b"sib%d" % len(trace), ".s"))
                sim.settle()
                seg = trace[mark:]
                pubs = [e for e in seg if e["what"] == "publish" and e["vec"] == "IMG"]
                invoked_any = True
                if len(pubs) != 1:
                    viol.append({"clause": "C14.read", "detail": f"{len(pubs)} updates of IMG published by one {st['via']} change", "facts": facts})
                else:
                    idx = seg.index(pubs[0])
                    before = [e for e in seg[:idx] if e.get("kind") == "Read" and e.get("el") == "B0"]
                    got = pubs[0]["values"].get("B0")
                    triple = (base64.b64decode(got or ""), pubs[0]["formats"].get("B0"), pubs[0]["sizes"].get("B0"))
                    frames = [(b, f, len(b)) for b, f in installed]
                    if not before:
                        viol.append({"clause": "C14.read", "detail": f"IMG was published ({st['via']}) without the plain Read handler of B0 running first; published B0 payload: {got!r}", "facts": dict(facts, kind="BLOB")})
                    elif triple not in frames:
                        viol.append({"clause": "C14.read", "detail": f"the published B0 (payload {triple[0]!r}, format {triple[1]!r}, size {triple[2]!r}) is not a value the Read handler installed: "
                                     f"it mixes several refreshes (installed during this publication: {frames[-len(before):]})", "facts": dict(facts, kind="BLOB", torn=True)})
            elif op in ("read_attr", "getprops"):
                if scen["read_mode"] == "none":
                    continue
                if op == "read_attr" and st.get("raises") and scen["read_mode"] in ("plain", "plain2"):
                    # fault: the Read handler raises once; the read fails with it - and the next read polls again as usual
                    scen["_read_fault"]["armed"] = True
                    try:
                        sim.do(lambda: drv.main.rd.r0.value)
                    except IOError:
                        probes["read_handler_raised_once"] = probes.get("read_handler_raised_once", 0) + 1
                    scen["_read_fault"]["armed"] = False
                    sim.settle()
                    continue
                if op == "read_attr":
                    got = sim.do(lambda: drv.main.rd.r0.value)
                    seg = trace[mark:]
                    rh = [e for e in seg if e["kind"] == "Read"] if seg else []
                    nexp = {"plain": 1, "plain2": 2, "coro": 1}[scen["read_mode"]]
                    sim.settle()
                    rh = [e for e in trace[mark:] if e.get("kind") == "Read"]
                    invoked_any = invoked_any or bool(rh)
                    if len(rh) != nexp:
                        viol.append({"clause": "C14.read", "detail": f"{len(rh)} Read handler invocations for one attribute read, expected {nexp}", "facts": facts})
                    elif scen["read_mode"] != "coro" and got != drv.main.rd.r0._value:
                        viol.append({"clause": "C14.read", "detail": f"read returned {got!r} but the Read handler installed {drv.main.rd.r0._value!r}", "facts": facts})
                    elif scen["read_mode"] != "coro" and not str(got).startswith("fresh"):
                        viol.append({"clause": "C14.read", "detail": f"read returned {got!r}: the plain Read handler ran after the value was returned", "facts": facts})
                else:
                    sim.do(node.client.handshake, "EV", "RD")
                    sim.settle()
                    seg = trace[mark:]
                    pubs = [e for e in seg if e["what"] == "publish_def" and e["vec"] == "RD"]
                    if len(pubs) != 1:
                        viol.append({"clause": "C14.read", "detail": f"getProperties(RD) produced {len(pubs)} definitions", "facts": facts})
                    elif scen["read_mode"] != "coro":
                        idx = seg.index(pubs[0])
                        before = [e for e in seg[:idx] if e.get("kind") == "Read"]
                        if not before:
                            viol.append({"clause": "C14.read", "detail": "definition published before the plain Read handler ran", "facts": facts})
                        elif pubs[0]["values"].get("R0") != drv.main.rd.r0._value or not str(pubs[0]["values"].get("R0")).startswith("fresh"):
                            viol.append({"clause": "C14.read", "detail": f"definition carries {pubs[0]['values'].get('R0')!r}, the Read handler installed {drv.main.rd.r0._value!r}", "facts": facts})
        sim.settle()
        if not viol:
            esc = stack.escaped()
            if esc or watchdog.S.tripped:
                viol.append({"clause": "C14.publish", "detail": f"escaped: {esc[:2]} {watchdog.S.tripped}", "facts": facts})
        digest = sim.digest()
        vtime, steps = sim.loop.time(), sim.loop.steps
    shape = (sum(1 for h in scen["handlers"] if h["kind"] == "Write"), sum(1 for h in scen["handlers"] if h["kind"] == "Change"),
             sum(1 for h in scen["handlers"] if h["coro"]), sum(1 for h in scen["handlers"] if h["veto"]), sum(1 for h in scen["handlers"] if len(h["on"]) > 1))
    sig = repr((shape, scen["read_mode"], scen["disabled_vec"], sorted({s["op"] for s in scen["steps"]}), sorted(outcomes)))
    for o in outcomes:
        probes["outcome:" + o] = 1
    return {"violations": viol[:1], "digest": digest, "probes": probes, "faults": {}, "steps": steps, "vtime": vtime, "sig": sig,
            "nontrivial": invoked_any, "sample": {"handlers": scen["handlers"][:6], "read_mode": scen["read_mode"], "steps": scen["steps"][:8]}}


def simplify(scen):
    for k, v in (("latency", "zero"), ("frag", "whole")):
        if scen["net"][k] != v:
            c = copy.deepcopy(scen)
            c["net"][k] = v
            yield c
    for i in range(len(scen["handlers"])):
        c = copy.deepcopy(scen)
        del c["handlers"][i]
        yield c
    if scen["read_mode"] != "none":
        c = copy.deepcopy(scen)
        c["read_mode"] = "none"
        yield c
    if scen.get("hier", "flat") != "flat":
        c = copy.deepcopy(scen)
        c["hier"] = "flat"
        yield c
