"""C15 - the client mirrors any server's property stream faithfully and survives it."""
from __future__ import annotations

import copy
import random

from ..env import Sim
from ..gen.spellings import library_style, rand_style
from ..ref.client_model import ClientModel, diff_snapshots, library_snapshot
from ..ref.structural import short, view_of_spec
from ..simnet import NetConfig
from ..simpool import PoolConfig
from .. import watchdog
from . import _clientworld as W

ID = "C15"
LEVEL = "exploration"
TECHNIQUE = "deterministic simulation: a stub foreign server streams def/set/del/ping traffic over a small name universe, in foreign spellings and arbitrary fragmentation, to the real two-connection client (and to an in-process snooping client); after every applied message the client's public view is compared with an independent reference interpreter of the INDI client rules"
RULE = ("scenario = stream of 1..40 messages over 2 devices x 3 properties x 3 elements (redefinition with the same or another kind, partial "
        "updates, kind mismatches, unknown devices/properties/elements, empty and absent BLOB payloads, nameless delProperty, pings) x "
        "spelling style per message x world {network client, BLOB updates on the BLOB connection, in-process snooper} x fragmentation/latency; "
        "a second stream class adds well-formed-but-awkward items (wrong declared BLOB size, bad base64) judged for survival only; distinct = "
        "(world, message kind sequence shape, situations hit); non-trivial = at least one update applied to an existing property")
COMPONENTS = {
    "real": ["indi.client (Client/BaseClient, Device, vectors, elements)", "indi.transport.client.tcp (TCP.connect, ConnectionHandler)", "indi.transport.buffer",
             "indi.message parser", "indi.device.snoop.SnoopingClient", "asyncio streams"],
    "stub": ["foreign INDI server (RawPeer, harness spelling writer)", "SimLoop, SimNet"],
}
ASSUMPTIONS = [
    "the stub server sends everything on the control connection, or (variant) the setBLOBVector messages on the BLOB connection as a server honouring Only would; it never duplicates traffic on both",
    "empty text == absent text == empty BLOB payload; a defBLOB carries no payload",
    "awkward streams (wrong declared size, undecodable base64) are judged for the survival clauses only",
]
QUICK_RUNS = 3000
QUICK_BUDGET_S = 150
THOROUGH_BUDGET_S = 360
CHUNK = 60
STEP_KEYS = ("steps",)


def generate(seed, tier, index):
    rng = random.Random(seed)
    thorough = tier == "thorough"
    world = rng.choice(["net", "net", "net_blobconn", "snoop"])
    awkward = rng.random() < 0.25
    n = rng.randint(1, 40 if thorough else 16)
    stream = W.gen_stream(rng, n, awkward=awkward)
    lib = rng.random() < 0.3
    steps = [{"spec": s, "style": library_style() if lib else rand_style(rng)} for s in stream]
    for st in steps:
        st["style"]["decl"] = st["style"]["decl"] if st["style"]["decl"] in (0, 1) else 1
    eager = rng.randint(1, min(3, len(steps))) if world != "snoop" and rng.random() < 0.3 else 0
    # fault: the server hangs up the BLOB connection (only) in the middle of the stream; the control connection goes on
    blob_eof_at = rng.randrange(len(steps)) if world == "net" and rng.random() < 0.25 else None
    return {"world": world, "awkward": awkward, "steps": steps, "eager": eager, "blob_eof_at": blob_eof_at,
            "connect_delay": rng.choice([0.0, 0.0, 0.001, 0.5]),
            "net": {"latency": rng.choice(["zero", "lan", "slow", "bursty"]), "frag": rng.choice(["whole", "fixed:1", "fixed:7", "random", "coalesce"]), "hwm": 65536},
            "batch": rng.choice([1, 1, 3, 100]), "seed": rng.randrange(1 << 30)}


def execute(scen):
    net = scen["net"]
    cfg = NetConfig(latency=net["latency"], frag_default=net["frag"], hwm=net["hwm"], connect_delay=scen.get("connect_delay", 0.0))
    viol, probes, faults = [], {}, {}
    facts = {"world": scen["world"], "awkward": scen["awkward"]}
    n_eager = scen.get("eager", 0) if scen["world"] != "snoop" else 0
    eager_bytes = b""
    for st in scen["steps"][:n_eager]:
        from ..gen.spellings import spell as _spell
        eager_bytes += _spell({k: v for k, v in st["spec"].items() if k != "awkward"}, st["style"]).encode("latin1", "xmlcharrefreplace")
    situations = set()
    applied_updates = 0
    with Sim(scen["seed"], cfg, PoolConfig()) as sim:
        pre_applied = []
        if scen["world"] == "snoop":
            world = W.SnoopWorld(sim)
        else:
            # the world's constructor already runs the client's start-up; messages the eager server pushed are applied during it
            W.NetClientWorld._early = pre_applied
            world = W.NetClientWorld(sim, eager=eager_bytes or None)
        model = ClientModel()
        client = world.client
        poisoned = [False]
        replaying = [False]
        if n_eager:
            probes["server_pushed_before_being_asked"] = 1  # after an awkward item the mirror is no longer compared (survival only)

        def after(view, raised):
            nonlocal applied_updates
            if raised is not None:
                viol.append({"clause": "C15.raise", "detail": f"process_message raised {type(raised).__name__}: {raised} on {short(view, 200)}", "facts": dict(facts, tag=view[0])})
                return
            if viol:
                return
            before_devs = set(model.devices)
            ev = model.apply(view)
            tag = view[0]
            a = dict(view[1])
            if tag.startswith("set"):
                if any(e[0] in ("value", "state") for e in ev):
                    applied_updates += 1
                    situations.add("update_applied")
                elif a.get("device") not in model.devices:
                    situations.add("update_unknown_device")
                elif a.get("name") not in model.devices.get(a.get("device"), {}):
                    situations.add("update_unknown_property")
                else:
                    vec = model.devices[a["device"]][a["name"]]
                    situations.add("update_kind_mismatch" if vec.kind != tag[3:-6] else "update_no_change")
            elif tag.startswith("def") and tag.endswith("Vector"):
                situations.add("redefinition" if a.get("device") in before_devs else "definition")
            elif tag == "delProperty":
                situations.add("del_whole_device" if a.get("name") is None else "del_property")
            if poisoned[0] or replaying[0]:
                return
            d = diff_snapshots(model.snapshot(), library_snapshot(client))
            if d:
                viol.append({"clause": "C15.mirror", "detail": f"after {short(view, 160)}: reference vs client view differ at {d}", "facts": dict(facts, tag=tag, situation=sorted(situations)[-1] if situations else None)})

        world.after_apply = after
        sent_views = []
        pending = 0
        # messages pushed eagerly were applied (or lost!) while the client was starting: replay them through the oracle
        for i, st in enumerate(scen["steps"][:n_eager]):
            if st["spec"].get("awkward"):
                poisoned[0] = True
            sent_views.append(view_of_spec(st["spec"]))
        early = list(world.applied)
        for k, v in enumerate(early):
            replaying[0] = k < len(early) - 1  # the client is already past them: compare the views once, after the last one
            after(v, None)
        replaying[0] = False
        for k_step, st in enumerate(scen["steps"][n_eager:], start=n_eager):
            if viol:
                break
            if scen.get("blob_eof_at") == k_step and scen["world"] == "net":
                sim.settle()
                sim.do(world.close_blob_connection)
                sim.settle()
                faults["blob_connection_eof"] = 1
            spec = st["spec"]
            if spec.get("awkward"):
                poisoned[0] = True
                probes["awkward_item"] = probes.get("awkward_item", 0) + 1
            on_blob = scen["world"] == "net_blobconn" and spec["tag"] == "setBLOBVector"
            sim.do(world.send, {k: v for k, v in spec.items() if k != "awkward"}, st["style"], on_blob) if scen["world"] != "snoop" else \
                world.send({k: v for k, v in spec.items() if k != "awkward"}, st["style"], on_blob)
            sent_views.append(view_of_spec(spec))
            pending += 1
            if pending >= scen["batch"]:
                sim.settle()
                pending = 0
        sim.settle()
        if not viol:
            # sentinel: the receive loop must still be alive and reflect one more definition
            if scen["world"] != "snoop":
                sim.do(world.send, {k: v for k, v in W.SENTINEL.items() if k != "awkward"}, library_style(), False)
            else:
                world.send({k: v for k, v in W.SENTINEL.items() if k != "awkward"}, library_style(), False)
            sim.settle()
        if watchdog.S.tripped and not viol:
            viol.append({"clause": "C15.alive", "detail": f"watchdog {watchdog.S.tripped}", "facts": facts})
        if not viol:
            # (a send task whose write hits the connection the server has hung up fails with a ConnectionError: in-flight
            # traffic to a dead connection is lost, which is the fault, not the client's doing)
            bad = [f"{n}: {e!r}" for n, e in sim.loop.task_failures()
                   if not (getattr(world, "blob_closed", False) and isinstance(e, ConnectionError))]
            if len(bad) != len(sim.loop.task_failures()):
                probes["send_failed_on_hung_up_blob_connection"] = 1
            if bad:
                viol.append({"clause": "C15.raise", "detail": f"a client task failed: {bad[:2]}", "facts": facts})
        if not viol and not world.alive():
            viol.append({"clause": "C15.alive", "detail": "a receive task of the client ended before EOF", "facts": facts})
        if not viol:
            dev = client.get_device("SENTINEL")
            if dev is None or dev.get_vector("END") is None:
                viol.append({"clause": "C15.alive", "detail": "a definition appended after the stream is not reflected: the client stopped processing", "facts": facts})
        one_by_one = scen["world"] == "net_blobconn" and scen["batch"] == 1 and not n_eager
        if not viol and (scen["world"] in ("net", "snoop") or one_by_one) and not scen["awkward"]:
            # nothing was lost or invented on the way: the client applied exactly what was sent, in order
            # (with BLOB updates on the BLOB connection the order across the two connections is only defined when every message
            # is followed by quiescence)
            exp = sent_views + [view_of_spec(W.SENTINEL)]
            if world.applied != exp:
                k = next((i for i, (x, y) in enumerate(zip(world.applied, exp)) if x != y), min(len(world.applied), len(exp)))
                viol.append({"clause": "C15.mirror", "detail": f"the client applied {len(world.applied)} messages, {len(exp)} were sent; first difference at #{k}: "
                             f"{short(world.applied[k], 120) if k < len(world.applied) else None} vs {short(exp[k], 120) if k < len(exp) else None}", "facts": facts})
        for sname in situations:
            probes["situation:" + sname] = 1
        digest = sim.digest() + repr(world.applied[-3:])
        import hashlib
        digest = hashlib.sha256(digest.encode("utf-8", "backslashreplace")).hexdigest()
        vtime, steps = sim.loop.time(), sim.loop.steps
    shape = tuple(s["spec"]["tag"][:3] for s in scen["steps"])
    sig = repr((scen["world"], scen["awkward"], shape, tuple(sorted(situations)), net["frag"]))
    return {"violations": viol[:1], "digest": digest, "probes": probes, "faults": faults, "steps": steps, "vtime": vtime, "sig": sig,
            "nontrivial": applied_updates > 0, "sample": {"world": scen["world"], "stream": [s["spec"]["tag"] for s in scen["steps"]][:20], "net": net}}


def simplify(scen):
    for k, v in (("latency", "zero"), ("frag", "whole")):
        if scen["net"][k] != v:
            c = copy.deepcopy(scen)
            c["net"][k] = v
            yield c
    if scen["world"] != "snoop":
        c = copy.deepcopy(scen)
        c["world"] = "snoop"
        yield c
    for i, st in enumerate(scen["steps"]):
        if st["style"] != library_style():
            c = copy.deepcopy(scen)
            c["steps"][i]["style"] = library_style()
            yield c
    for i, st in enumerate(scen["steps"]):
        for j in range(len(st["spec"]["children"])):
            c = copy.deepcopy(scen)
            del c["steps"][i]["spec"]["children"][j]
            yield c
