"""C16 - client change events are complete and exact."""
from __future__ import annotations

import copy
import random

from indi.client import events as CE

from ..env import Sim
from ..gen.spellings import library_style, rand_style
from ..ref.client_model import ClientModel
from ..ref.structural import short
from ..simnet import NetConfig
from ..simpool import PoolConfig
from .. import watchdog
from . import _clientworld as W

ID = "C16"
LEVEL = "exploration"
TECHNIQUE = "deterministic simulation: foreign-server streams (as C15) delivered to the real client while callbacks with every filter combination (plain, coroutine, raising) are registered and removed between deliveries; each callback's log is compared with the events an independent reference interpreter derives from consecutive snapshots; per-object value/state chains are checked"
RULE = ("scenario = message stream as in C15 x callback operations between deliveries: onevent(device/vector/element each absent, matching or "
        "non-matching; event type in {Base, Value, State, Definition}; plain | coroutine | raising RuntimeError | raising asyncio.CancelledError), rmonevent(uuid), rmonevent(criteria) x "
        "delivery {one message per quiescence, bursts} x world {network client, in-process snooper} x fragmentation; distinct = (filter shapes, callback kinds, removal kinds, situations); "
        "non-trivial = at least one callback received at least one event and at least one callback operation happened mid-stream")
COMPONENTS = {
    "real": ["indi.client.client (onevent/rmonevent/trigger_event/_CallbackConfig)", "indi.client events/vectors/elements/device", "indi.transport.client.tcp + Buffer",
             "indi.device.snoop.SnoopingClient"],
    "stub": ["foreign INDI server (RawPeer)", "SimLoop, SimNet"],
}
ASSUMPTIONS = [
    "a (re)definition creates or replaces the property, so it starts new chains whose head has old=None; a head event is required when the defined value/state is not None and merely permitted when it is None",
    "for coroutine callbacks 'invoked' means dispatched; a coroutine callback dispatched before its removal may run after it",
    "order of events within one message is not demanded; BLOB payloads are unique per message (equality of equal-byte BLOB objects is not defined by the property)",
    "callback operations happen at quiescence between deliveries",
]
QUICK_RUNS = 3000
QUICK_BUDGET_S = 150
THOROUGH_BUDGET_S = 360
CHUNK = 60
STEP_KEYS = ("steps",)
TYPES = {"Base": CE.BaseEvent, "Value": CE.ValueUpdate, "State": CE.StateUpdate, "Definition": CE.DefinitionUpdate}


def generate(seed, tier, index):
    rng = random.Random(seed)
    thorough = tier == "thorough"
    world = rng.choice(["net", "net", "snoop"])
    n = rng.randint(2, 40 if thorough else 16)
    stream = W.gen_stream(rng, n, awkward=False)
    steps = []
    ncb = 0

    def reg():
        nonlocal ncb
        f = {"op": "onevent", "id": ncb,
             "device": rng.choice([None, None, "DA", "DB", "DZ"]), "vector": rng.choice([None, None, "P1", "P2", "P9"]),
             "element": rng.choice([None, None, None, "E1", "E2", "E9"]), "type": rng.choice(["Base", "Base", "Value", "State", "Definition"]),
             "kind": rng.choice(["plain", "plain", "plain", "coro", "coro", "raising", "raising_coro", "raising_cancelled"])}
        ncb += 1
        if rng.random() < 0.2:
            f["orphan"] = True
        return f

    for _ in range(rng.randint(1, 4)):
        steps.append(reg())
    for s in stream:
        r = rng.random()
        if r < 0.12:
            steps.append(reg())
        elif r < 0.2 and ncb:
            steps.append({"op": "rm_uuid", "id": rng.randrange(ncb)})
        elif r < 0.24 and ncb:
            steps.append({"op": "rm_callback", "id": rng.randrange(ncb)})
        elif r < 0.3:
            # the application assigns a new value (pending until submit) while updates keep arriving
            steps.append({"op": "assign_pending", "device": rng.choice(["DA", "DB"]), "vector": rng.choice(["P1", "P2", "P3"]),
                          "element": rng.choice(["E1", "E2", "E3"]), "value": rng.choice(["same", "7", "On", "t1"]), "submit": rng.random() < 0.3})
        elif r < 0.38:
            # a pending waitforevent sits in the callback list like any other callback and removes itself when it completes
            steps.append({"op": "wait", "device": rng.choice([None, "DA"]), "vector": rng.choice([None, None, "P1"]),
                          "type": rng.choice(["Value", "State", "Base"])})
            if rng.random() < 0.7:
                steps.append(reg())
        elif r < 0.44:
            steps.append({"op": "rm_criteria", "device": rng.choice([None, "DA", "DB"]), "vector": rng.choice([None, None, "P1"]),
                          "element": rng.choice([None, None, "E1"]), "type": rng.choice([None, None, "Value", "Base"])})
        steps.append({"op": "msg", "spec": s, "style": library_style() if rng.random() < 0.5 else rand_style(rng)})
        if rng.random() < 0.4:
            # the next message follows in the same burst (same read / same loop iteration): callbacks that run later - coroutine
            # callbacks are tasks - get to look at their event when the element has already moved on
            steps[-1]["burst"] = True
    for st in steps:
        if st["op"] == "msg" and st["style"]["decl"] not in (0, 1):
            st["style"]["decl"] = 1
    glob_names = rng.random() < 0.25
    if glob_names:
        # legal names that contain what a pattern language would take for metacharacters (indexed names like "CCD [1]",
        # "OFFSET[0]", "GAIN*"): a filter is a name, it must match that name and nothing else
        ren = {"DA": "D[AB]", "P1": "P*", "E1": "E?", "DZ": "D?", "P9": "P[1-9]", "E9": "[E]9"}
        r1 = lambda x: ren.get(x, x)  # noqa
        for st in steps:
            if st["op"] == "msg":
                sp = st["spec"]
                for a in sp["attrs"]:
                    if a[0] in ("device", "name"):
                        a[1] = r1(a[1])
                for k in sp["children"]:
                    for a in k["attrs"]:
                        if a[0] == "name":
                            a[1] = r1(a[1])
            else:
                for key in ("device", "vector", "element"):
                    if st.get(key) is not None:
                        st[key] = r1(st[key])
    return {"world": world, "steps": steps, "glob_names": glob_names,
            "net": {"latency": rng.choice(["zero", "lan", "slow"]), "frag": rng.choice(["whole", "fixed:7", "random", "coalesce"]), "hwm": 65536},
            "seed": rng.randrange(1 << 30)}


def _norm_val(v):
    if v is not None and not isinstance(v, (str, int, float, tuple)):
        return (bytes(v.binary), v.format)  # values.BLOB
    return v


def event_tuple(ev):
    """Library event -> comparable tuple shaped like ClientModel's derived events."""
    dev = ev.device.name if ev.device else None
    vec = ev.vector.name if ev.vector else None
    if isinstance(ev, CE.ValueUpdate):
        return ("value", dev, vec, ev.element.name, _norm_val(ev.old_value), _norm_val(ev.new_value))
    if isinstance(ev, CE.StateUpdate):
        return ("state", dev, vec, ev.old_state, ev.new_state)
    if isinstance(ev, CE.DefinitionUpdate):
        return ("def", dev, vec)
    return ("other", dev, vec)


def matches(f, ev):
    """Reference filter semantics: every given filter field must equal the event's field; the type must fit."""
    kind = ev[0]
    if f["type"] != "Base" and {"Value": "value", "State": "state", "Definition": "def"}[f["type"]] != kind:
        return False
    if f["device"] is not None and ev[1] != f["device"]:
        return False
    if f["vector"] is not None and ev[2] != f["vector"]:
        return False
    if f["element"] is not None and (kind != "value" or ev[3] != f["element"]):
        return False
    return True


def _drop_trivial(evs):
    """None -> None heads are permitted, not required: ignore them on both sides."""
    out = []
    for e in evs:
        if e[0] == "value" and e[4] is None and e[5] is None:
            continue
        if e[0] == "value" and isinstance(e[5], tuple) and e[4] == e[5]:
            continue  # a BLOB replaced by an equal-byte BLOB (empty payload twice): change / no change is not defined
        if e[0] == "state" and e[3] is None and e[4] is None:
            continue
        out.append(e)
    return out


def execute(scen):
    net = scen["net"]
    cfg = NetConfig(latency=net["latency"], frag_default=net["frag"], hwm=net["hwm"])
    viol, probes = [], {}
    facts = {"world": scen["world"]}
    got_any = False
    mid_ops = 0
    with Sim(scen["seed"], cfg, PoolConfig()) as sim:
        world = W.SnoopWorld(sim) if scen["world"] == "snoop" else W.NetClientWorld(sim)
        client = world.client
        model = ClientModel()
        msg_index = [0]
        cbs = {}  # id -> dict(filter, uuid, registered_at, removed_at, log, expected)
        chain_log = []  # (kind, object, old, new) in dispatch order, from an unfiltered plain watcher registered first
        keep = []

        def watcher(ev):
            keep.append(ev)
            if isinstance(ev, CE.ValueUpdate):
                chain_log.append(("value", ev.element, _norm_val(ev.old_value), _norm_val(ev.new_value)))
            elif isinstance(ev, CE.StateUpdate):
                chain_log.append(("state", ev.vector, ev.old_state, ev.new_state))

        sim.do(lambda: client.onevent(callback=watcher))

        def after(view, raised):
            if raised is not None:
                viol.append({"clause": "C16.isolation", "detail": f"process_message raised {type(raised).__name__}: {raised}", "facts": facts})
                return
            derived = model.apply(view)
            msg_index[0] += 1
            for c in cbs.values():
                if c["removed_at"] is None:
                    for ev in derived:
                        if ev[0] in ("value", "state", "def") and matches(c["filter"], ev):
                            c["expected"].append(ev)

        world.after_apply = after

        class Recorder:
            """Callbacks are bound methods: `rec.plain` evaluated twice gives two equal but not identical objects,
            which is how applications usually pass callbacks to onevent / rmonevent(callback=...)."""

            def __init__(self, cid):
                self.cid = cid

            def _log(self, ev):
                rec = cbs[self.cid]
                keep.append(ev)
                rec["log"].append((event_tuple(ev), rec["removed_at"] is not None))

            def plain(self, ev):
                self._log(ev)

            async def coro(self, ev):
                self._log(ev)

            def raising(self, ev):
                self._log(ev)
                raise RuntimeError("callback failure injected")

            def raising_cancelled(self, ev):
                # what a callback that looks at the outcome of a cancelled job raises: asyncio.CancelledError, which is
                # not an Exception subclass
                self._log(ev)
                import asyncio
                fut = sim.loop.create_future()
                fut.cancel()
                fut.result()

            async def raising_coro(self, ev):
                self._log(ev)
                raise RuntimeError("callback failure injected")

        def make_cb(cid, kind):
            if cbs[cid]["filter"].get("orphan"):
                # fire-and-forget: client.onevent(callback=Recorder(...).plain) - the application keeps no reference to the
                # handler object, the registration is what keeps it alive
                cbs[cid]["recorder"] = None
                probes["callback_owner_referenced_by_nobody_else"] = 1
                return getattr(Recorder(cid), kind)
            cbs[cid]["recorder"] = Recorder(cid)
            return getattr(cbs[cid]["recorder"], kind)

        seen_msg = False
        waits = []
        for st in scen["steps"]:
            if viol:
                break
            op = st["op"]
            if op == "msg":
                spec = {k: v for k, v in st["spec"].items() if k != "awkward"}
                if scen["world"] == "snoop":
                    world.send(spec, st["style"])
                else:
                    sim.do(world.send, spec, st["style"], False)
                if st.get("burst"):
                    probes["messages_in_one_burst"] = probes.get("messages_in_one_burst", 0) + 1
                else:
                    sim.settle()
                seen_msg = True
                continue
            sim.settle()
            if seen_msg:
                mid_ops += 1
            if op == "onevent":
                cid = st["id"]
                cbs[cid] = {"filter": st, "uuid": None, "removed_at": None, "log": [], "expected": [], "kind": st["kind"]}
                cb = make_cb(cid, st["kind"])
                cbs[cid]["cb"] = None if st.get("orphan") else cb
                kw = {"callback": cb, "event_type": TYPES[st["type"]]}
                for k in ("device", "vector", "element"):
                    if st[k] is not None:
                        kw[k] = st[k]
                cbs[cid]["uuid"] = sim.do(lambda: client.onevent(**kw))
                cb = kw = None  # (the harness keeps no reference of its own to a fire-and-forget handler)
            elif op == "rm_uuid":
                c = cbs.get(st["id"])
                if c is None or c["removed_at"] is not None:
                    continue
                sim.do(lambda: client.rmonevent(uuid=c["uuid"]))
                c["removed_at"] = msg_index[0]
                probes["removed_by_uuid"] = probes.get("removed_by_uuid", 0) + 1
            elif op == "assign_pending":
                dev = client.get_device(st["device"])
                vec = dev.get_vector(st["vector"]) if dev else None
                el = vec.get_element(st["element"]) if vec else None
                if el is None or type(vec).__name__ in ("BLOBVector", "LightVector"):
                    continue

                def assign():
                    el.value = st["value"]
                    if st["submit"]:
                        try:
                            vec.submit()
                        except Exception:
                            pass  # a value the client API refuses for this kind: irrelevant here
                sim.do(assign)
                probes["pending_client_assignment"] = probes.get("pending_client_assignment", 0) + 1
            elif op == "wait":
                kw = {"event_type": TYPES[st["type"]], "check": (lambda ev: True), "polling_enabled": False}
                for k in ("device", "vector"):
                    if st[k] is not None:
                        kw[k] = st[k]
                waits.append(sim.spawn(client.waitforevent(**kw)))
                probes["pending_waitforevent"] = probes.get("pending_waitforevent", 0) + 1
            elif op == "rm_callback":
                c = cbs.get(st["id"])
                if c is None or c["removed_at"] is not None or c["recorder"] is None:
                    continue
                fresh = getattr(c["recorder"], c["kind"])  # a new bound-method object, equal to the registered one
                sim.do(lambda: client.rmonevent(callback=fresh))
                c["removed_at"] = msg_index[0]
                probes["removed_by_callback"] = probes.get("removed_by_callback", 0) + 1
            elif op == "rm_criteria":
                kw = {}
                for k in ("device", "vector", "element"):
                    if st[k] is not None:
                        kw[k] = st[k]
                if st["type"] is not None:
                    kw["event_type"] = TYPES[st["type"]]
                if all(st[k] is None for k in ("device", "vector", "element")) and st["type"] in (None, "Base"):
                    continue  # would also remove the harness's unfiltered watcher
                sim.do(lambda: client.rmonevent(**kw))
                for c in cbs.values():
                    f = c["filter"]
                    if c["removed_at"] is None and all(f[k] == st[k] for k in ("device", "vector", "element") if st[k] is not None) and (
                            st["type"] is None or f["type"] == st["type"]):
                        c["removed_at"] = msg_index[0]
                        probes["removed_by_criteria"] = probes.get("removed_by_criteria", 0) + 1
        sim.settle()
        if watchdog.S.tripped and not viol:
            viol.append({"clause": "C16.isolation", "detail": f"watchdog {watchdog.S.tripped}", "facts": facts})
        bad = [f"{n}: {e!r}" for n, e in sim.loop.task_failures() if "callback failure injected" not in repr(e)]
        if bad and not viol:
            viol.append({"clause": "C16.isolation", "detail": f"a task failed: {bad[:2]}", "facts": facts})
        if not viol and not world.alive():
            viol.append({"clause": "C16.isolation", "detail": "the client's receive task ended (a raising callback stopped the client?)", "facts": facts})
        # ---- per callback: exactly the matching events dispatched while registered ----
        for cid, c in sorted(cbs.items()):
            if viol:
                break
            f = c["filter"]
            got = _drop_trivial([e for e, _ in c["log"]])
            exp = _drop_trivial(c["expected"])
            if got:
                got_any = True
            f2 = dict(facts, cb_kind=c["kind"], type=f["type"], has_element_filter=f["element"] is not None)
            fdesc = {k: f[k] for k in ("device", "vector", "element", "type", "kind")}
            if c["kind"] not in ("coro", "raising_coro"):
                late = [e for e, removed in c["log"] if removed]
                if late:
                    viol.append({"clause": "C16.removed", "detail": f"callback {fdesc} invoked after its removal with {short(late[0], 120)}", "facts": f2})
                    break
            if sorted(map(repr, got)) != sorted(map(repr, exp)):
                extra = [e for e in got if repr(e) not in set(map(repr, exp))]
                missing = [e for e in exp if repr(e) not in set(map(repr, got))]
                if extra and not missing and c["removed_at"] is not None:
                    clause = "C16.removed"
                elif any(e[0] in ("value", "state") for e in extra + missing) and all(matches(f, e) for e in extra):
                    clause = "C16.iff"
                else:
                    clause = "C16.filter"
                viol.append({"clause": clause, "detail": f"callback {fdesc}: got {len(got)} events, expected {len(exp)}; unexpected {[short(e, 90) for e in extra[:2]]} missing {[short(e, 90) for e in missing[:2]]}", "facts": f2})
                break
        # ---- chains per element / vector object ----
        if not viol:
            last = {}
            for kind, obj, old, new in chain_log:
                key = (kind, id(obj))
                if key in last:
                    if last[key] != old:
                        viol.append({"clause": "C16.chain", "detail": f"{kind} chain of {obj.name}: event old={old!r} but the previous event's new was {last[key]!r}", "facts": facts})
                        break
                elif old is not None:
                    viol.append({"clause": "C16.chain", "detail": f"{kind} chain of {obj.name} starts with old={old!r} (expected None for a freshly defined object)", "facts": facts})
                    break
                last[key] = new
            if not viol:
                for dname in list(client.list_devices()):
                    dev = client.get_device(dname)
                    for vname in dev.list_vectors():
                        v = dev.get_vector(vname)
                        k = ("state", id(v))
                        cur = v.state
                        if last.get(k, None) != cur and not (k not in last and cur is None):
                            viol.append({"clause": "C16.chain", "detail": f"state of {dname}.{vname} is {cur!r} but the last state event said {last.get(k)!r}", "facts": facts})
                            break
                        for ename in v.list_elements():
                            e = v.get_element(ename)
                            k = ("value", id(e))
                            cur = _norm_val(e.value)
                            if last.get(k, None) != cur and not (k not in last and cur is None):
                                viol.append({"clause": "C16.chain", "detail": f"value of {dname}.{vname}.{ename} is {str(cur)[:60]!r} but the last value event said {str(last.get(k))[:60]!r}", "facts": facts})
                                break
                        if viol:
                            break
                    if viol:
                        break
        kinds = tuple(sorted({c["kind"] for c in cbs.values()}))
        shapes = tuple(sorted({(c["filter"]["device"] is not None, c["filter"]["vector"] is not None, c["filter"]["element"] is not None, c["filter"]["type"]) for c in cbs.values()}))
        if any(c["kind"] == "raising" and c["log"] for c in cbs.values()):
            probes["raising_callback_invoked"] = 1
        if scen.get("glob_names"):
            probes["names_with_pattern_metacharacters"] = 1
        if any(c["kind"] == "raising_cancelled" and c["log"] for c in cbs.values()):
            probes["callback_raising_CancelledError_invoked"] = 1
        digest = sim.digest() + repr([(cid, [e for e, _ in c["log"]]) for cid, c in sorted(cbs.items())])
        import hashlib
        digest = hashlib.sha256(digest.encode("utf-8", "backslashreplace")).hexdigest()
        vtime, steps = sim.loop.time(), sim.loop.steps
    sig = repr((scen["world"], kinds, shapes, tuple(sorted(probes)), len(scen["steps"])))
    return {"violations": viol[:1], "digest": digest, "probes": probes, "faults": {}, "steps": steps, "vtime": vtime, "sig": sig,
            "nontrivial": got_any and mid_ops > 0,
            "sample": {"world": scen["world"], "steps": [s if s["op"] != "msg" else {"op": "msg", "tag": s["spec"]["tag"]} for s in scen["steps"]][:16]}}


def simplify(scen):
    for k, v in (("latency", "zero"), ("frag", "whole")):
        if scen["net"][k] != v:
            c = copy.deepcopy(scen)
            c["net"][k] = v
            yield c
    if scen["world"] != "snoop":
        c = copy.deepcopy(scen)
        c["world"] = "snoop"
        yield c
    for i, st in enumerate(scen["steps"]):
        if st["op"] == "msg" and st["style"] != library_style():
            c = copy.deepcopy(scen)
            c["steps"][i]["style"] = library_style()
            yield c
