"""C17 - waiting for an event returns the first match or times out, whatever the timing."""
from __future__ import annotations

import copy
import random

from indi import message as M
from indi.client import events as CE
from indi.client.client import BaseClient, Client
from indi.message import IndiMessage
from indi.transport.client import TCP as ClientTCP

from ..env import RawPeer, Sim
from ..ref.structural import view_of_message
from ..ref.xmlsplit import parse_elements
from ..simnet import NetConfig
from ..simpool import PoolConfig

ID = "C17"
LEVEL = "exploration"
TECHNIQUE = "deterministic simulation on a virtual clock: matching and non-matching events are placed on a 0.25 s grid (including several in one instant and several in one network read) around waits with every condition kind, timeout and polling configuration; outcome, completion instant, returned event, poll instants and cleanup are compared with a closed-form expectation"
RULE = ("scenario = 1-3 concurrent waits (condition kind {expect, initial, check} x event kind {value, state} x timeout {none, grid} x polling "
        "{off, (delay, interval) on the grid} x filters) x a timeline of matching / non-matching updates at grid instants from 0 to beyond the "
        "timeout, injected directly (loop.call_at) or sent by a stub server through the simulated network (coalesced reads), with seeded "
        "tie-break of equal-time timers; distinct = (condition kinds, timeout class, polling, injection mode, relation of first match to "
        "timeout, same-instant matches); non-trivial = at least one wait with at least one event inside its window")
COMPONENTS = {
    "real": ["indi.client.client.BaseClient.waitforevent/onevent/rmonevent/trigger_event", "indi.client (Device, vectors, elements, events)",
             "indi.client.Client + indi.transport.client.tcp + Buffer (network mode)", "asyncio.Event/sleep/tasks"],
    "stub": ["SimLoop virtual clock and timer heap (seeded tie-break)", "SimNet", "stub server (RawPeer)", "recording send_message (direct mode)"],
}
ASSUMPTIONS = [
    "a timeout of zero or less is outside what the property defines: 'give up at once' and 'no timeout' (the library's reading) are both accepted, the other clauses are judged under the reading the run shows",
    "nothing is demanded at an exact tie between an event or poll tick and the timeout or completion instant (the generator avoids event == timeout; poll ticks at the completion instant are accepted either way)",
    "grid step 0.25 s (binary fractions: no accidental float ties)",
    "the returned event is identified by its (old, new) pair: every non-matching update carries a unique value",
]
QUICK_RUNS = 6000
QUICK_BUDGET_S = 120
THOROUGH_BUDGET_S = 360
CHUNK = 100
STEP_KEYS = ("events",)
GRID = 0.25
STATES = ["Idle", "Ok", "Busy", "Alert"]


def generate(seed, tier, index):
    rng = random.Random(seed)
    thorough = tier == "thorough"
    mode = rng.choice(["direct", "direct", "net"])
    nw = rng.choice([1, 1, 2, 3])
    waits = []
    for i in range(nw):
        ek = rng.choice(["value", "state"])
        ck = rng.choice(["expect", "initial", "check"])
        T = rng.choice([None, None, 0.5, 1.0, 1.75, 2.5, 4.0, 0, 0, -1.0])
        poll = None if rng.random() < 0.4 else [rng.choice([0.25, 0.5, 1.0, 1.5]), rng.choice([0.25, 0.5, 1.0])]
        start = rng.choice([0.0, 0.0, 0.25, 1.0])
        el = rng.choice(["E1", "E2"])
        waits.append({"ek": ek, "ck": ck, "timeout": T, "poll": poll, "start": start, "el": el,
                      "filter_el": ek == "value" and rng.random() < 0.7, "filter_dev": rng.random() < 0.7})
        # an element-filtered wait without an event-type filter: the element filter alone must keep out the events that
        # have no element (state changes and re-definitions of the same property)
        waits[-1]["untyped"] = waits[-1]["filter_el"] and rng.random() < 0.4
        # a property-wide wait without a type filter whose custom check only knows value events: on every state change and
        # re-definition of the property the check raises (AttributeError) - which concerns nobody but that wait
        if ek == "value" and ck == "check" and not waits[-1]["filter_el"] and rng.random() < 0.6:
            waits[-1]["untyped"] = True
            waits[-1]["raising_check"] = True
    horizon = 6.0
    nev = rng.randint(0, 14 if thorough else 8)
    evs = []
    serial = 0
    for _ in range(nev):
        t = rng.randrange(0, int(horizon / GRID) + 1) * GRID
        if rng.random() < 0.3 and evs:
            t = rng.choice(evs)["t"]  # same instant as an earlier one
        serial += 1
        kind = rng.choice(["value", "value", "state"])
        el = rng.choice(["E1", "E2"])
        match = rng.random() < 0.45
        evs.append({"t": t, "kind": kind, "el": el, "match": match, "n": serial})
        if not match and rng.random() < 0.3:
            evs[-1]["near"] = True  # a value that is a proper part of the awaited one ("M31" while waiting for "M31 tracking")
    # avoid event == timeout instant for any wait (ties are outside the property)
    bad = {w["start"] + w["timeout"] for w in waits if w["timeout"]}
    evs = [e for e in evs if e["t"] not in bad]
    evs.sort(key=lambda e: (e["t"], e["n"]))
    late_def = None
    if rng.random() < 0.25:
        # the device is unknown to the client when the waits start: its first definition arrives in the middle of the timeline
        # (its ValueUpdate / StateUpdate head events are events like any other and may be the first match)
        t = rng.randrange(1, int(4.0 / GRID)) * GRID
        if t not in bad:
            late_def = {"t": t, "state": rng.choice(STATES), "e1": rng.choice(["v0", "MATCH", "u0a"]), "e2": rng.choice(["v0", "MATCH", "u0b"])}
    # the awaited value may be falsy (an empty text): only expressible with message objects, i.e. for an in-process client
    falsy = mode == "direct" and rng.random() < 0.2
    return {"mode": mode, "waits": waits, "events": evs, "late_def": late_def, "falsy": falsy, "tie_shuffle": rng.random() < 0.5, "seed": rng.randrange(1 << 30),
            "frag": rng.choice(["coalesce", "whole", "fixed:7"])}


class RecClient(BaseClient):
    def __init__(self, sim):
        super().__init__()
        self.sim = sim
        self.sent = []

    def send_message(self, msg):
        self.sent.append((self.sim.loop.time(), view_of_message(msg)))


DEF = ('<defTextVector device="D" name="V" state="Idle" perm="rw"><defText name="E1">v0</defText><defText name="E2">v0</defText></defTextVector>\n')


def _timeline(scen):
    """Concrete messages: each event -> (t, xml, derived library-level events [(kind, el, old, new)])"""
    val = {"E1": "v0", "E2": "v0"}
    state = "Idle"
    out = []
    MV = "" if scen.get("falsy") else "MATCH"
    ld = scen.get("late_def")
    events = list(scen["events"])
    if ld:
        events = [e for e in events if e["t"] > ld["t"]]  # updates for a device the client does not know yet are ignored anyway
        xml = (f'<defTextVector device="D" name="V" state="{ld["state"]}" perm="rw"><defText name="E1">{ld["e1"]}</defText>'
               f'<defText name="E2">{ld["e2"]}</defText></defTextVector>\n')
        out.append((ld["t"], xml, [("value", "E1", None, ld["e1"]), ("value", "E2", None, ld["e2"]), ("state", None, None, ld["state"])]))
        val = {"E1": ld["e1"], "E2": ld["e2"]}
        state = ld["state"]
    for e in events:
        derived = []
        if e["kind"] == "value":
            new = MV if e["match"] else f"u{e['n']}"
            if e.get("near") and MV:
                new = MV[: 1 + e["n"] % (len(MV) - 1)] if e["n"] % 2 else MV[1 + e["n"] % (len(MV) - 2):]
            if val[e["el"]] == new:
                new = f"u{e['n']}"  # a repeated MATCH would not be a change: make it a unique non-match instead
            xml = f'<setTextVector device="D" name="V" state="{state}"><oneText name="{e["el"]}">{new}</oneText></setTextVector>\n'
            derived.append(("value", e["el"], val[e["el"]], new))
            val[e["el"]] = new
        else:
            choices = [s for s in STATES if s != state]
            new = "Alert" if e["match"] and state != "Alert" else choices[e["n"] % len(choices)]
            xml = f'<setTextVector device="D" name="V" state="{new}"></setTextVector>\n'
            derived.append(("state", None, state, new))
            state = new
        out.append((e["t"], xml, derived))
    return out


def _matches(w, ev):
    """Does a derived event satisfy wait w's filter and condition?"""
    kind, el, old, new = ev
    if w["ek"] != kind:
        return False
    if kind == "value" and w["filter_el"] and el != w["el"]:
        return False
    if w["ck"] == "expect":
        return new == (w.get("_mv", "MATCH") if kind == "value" else "Alert")
    if w["ck"] == "initial":
        return new != ("v0" if kind == "value" else "Idle")
    return str(new).startswith("u") and kind == "value" or (kind == "state" and new in ("Busy", "Alert"))


def execute(scen):
    viol, probes = [], {}
    cfg = NetConfig(latency="zero", frag_default=scen["frag"], hwm=65536)
    tl = _timeline(scen)
    with Sim(scen["seed"], cfg, PoolConfig(), tie_shuffle=scen["tie_shuffle"]) as sim:
        loop = sim.loop
        if scen["mode"] == "direct":
            client = RecClient(sim)
            if not scen.get("late_def"):
                sim.do(client.process_message, IndiMessage.from_string(DEF))
            # same-instant messages are dispatched as one batch, in timeline order (like several messages in one read):
            # they carry absolute states, so permuting them would change what they mean
            def to_obj(xml):
                msg = IndiMessage.from_string(xml)
                if scen.get("falsy"):
                    # the parser turns an empty text into None; an in-process peer hands over the empty string itself
                    for ch in getattr(msg, "children", None) or ():
                        if ch.value is None:
                            ch.value = ""
                return msg

            batches = {}
            for t, xml, _ in tl:
                batches.setdefault(t, []).append(to_obj(xml))

            def deliver(msgs):
                for mm in msgs:
                    client.process_message(mm)

            for t, msgs in batches.items():
                loop.call_at(t, deliver, msgs)
            sent = client.sent
        else:
            peers = []

            def factory():
                p = RawPeer(sim, f"srv{len(peers)}")
                peers.append(p)
                return p

            sim.spawn(loop.create_server(factory, "sim", 7624))
            sim.settle()
            client = Client(ClientTCP("sim", 7624), ClientTCP("sim", 7624))
            sim.spawn(client.start())
            sim.settle()
            ctl = peers[0]
            if not scen.get("late_def"):
                sim.do(ctl.send, DEF)
            sim.settle()
            base_len = len(ctl.received)
            batches = {}
            for t, xml, _ in tl:
                batches[t] = batches.get(t, "") + xml
            for t, xml in batches.items():
                loop.call_at(t, ctl.send, xml)
            sent = None
        base_cb = len(client.callbacks)
        results = {}

        def start_wait(i, w):
            kw = {"vector": "V", "timeout": w["timeout"]}
            if w["filter_dev"]:
                kw["device"] = "D"
            if not w.get("untyped"):
                kw["event_type"] = CE.ValueUpdate if w["ek"] == "value" else CE.StateUpdate
            elif w.get("raising_check"):
                probes["wait_whose_check_raises_on_other_event_kinds"] = 1
            else:
                probes["element_filtered_wait_without_type_filter"] = 1
            if w["ek"] == "value" and w["filter_el"]:
                kw["element"] = w["el"]
            if w["ck"] == "expect":
                kw["expect"] = ("" if scen.get("falsy") else "MATCH") if w["ek"] == "value" else "Alert"
            elif w["ck"] == "initial":
                kw["initial"] = "v0" if w["ek"] == "value" else "Idle"
            else:
                if w["ek"] == "value":
                    kw["check"] = lambda ev: str(ev.new_value).startswith("u")
                else:
                    kw["check"] = lambda ev: ev.new_state in ("Busy", "Alert")
            if w["poll"] is None:
                kw["polling_enabled"] = False
            else:
                kw["polling_delay"], kw["polling_interval"] = w["poll"]
            rec = {"done": None}
            results[i] = rec

            async def run():
                try:
                    ev = await client.waitforevent(**kw)
                    old = getattr(ev, "old_value", getattr(ev, "old_state", None))
                    new = getattr(ev, "new_value", getattr(ev, "new_state", None))
                    rec["done"] = ("event", loop.time(), (old, new), getattr(ev.element, "name", None))
                except Exception as e:  # noqa
                    rec["done"] = ("timeout" if "Timeout" in str(e) else "error:" + repr(e), loop.time())

            rec["task"] = loop.create_task(run())

        for i, w in enumerate(scen["waits"]):
            loop.call_at(w["start"], start_wait, i, w)
        END = 12.0
        loop.drain(until=END)
        # ---------------------------------------------------------------- expectations
        # dispatch order of derived events at equal instants follows the timeline order (same connection / FIFO timers unless shuffled)
        shuffled = False
        for i, w in enumerate(scen["waits"]):
            w["_mv"] = "" if scen.get("falsy") else "MATCH"
            rec = results.get(i, {"done": None})
            s, T = w["start"], w["timeout"]
            cands = []
            for t, xml, derived in tl:
                if t < s or (t == s):
                    # an event at the very instant the wait starts may or may not be seen (tie): treat as ambiguous
                    if t == s and any(_matches(w, d) for d in derived):
                        cands.append((t, derived, True))
                    continue
                for d in derived:
                    if _matches(w, d):
                        cands.append((t, d, False))
            amb_start = any(c[2] for c in cands)
            cands = [c for c in cands if not c[2]]
            first = cands[0] if cands else None
            facts = {"ck": w["ck"], "ek": w["ek"], "mode": scen["mode"], "timeout": T is not None, "polling": w["poll"] is not None}
            ctx = f"wait#{i} {w} mode={scen['mode']} events={[(t, d) for t, _, ds in tl for d in ds][:10]}"
            done = rec["done"]
            if amb_start:
                probes["ambiguous_start_tie"] = probes.get("ambiguous_start_tie", 0) + 1
                continue
            imm = False
            if T is not None and T <= 0:
                # a timeout of zero (or less) is outside what the property defines: "give up at once" and "no timeout" (what the
                # library does) are both accepted; whichever it is, the rest of the contract - first match, polling - is judged
                probes["nonpositive_timeout"] = probes.get("nonpositive_timeout", 0) + 1
                if done is not None and done[0] == "timeout" and done[1] == s:
                    imm = True
                else:
                    T = None
            deadline = None if T is None else s + T
            if imm:
                completion = s
            elif first is not None and (deadline is None or first[0] < deadline):
                # must return that very event at that instant
                same_instant = [c for c in cands if c[0] == first[0]]
                if done is None:
                    viol.append({"clause": "C17.first", "detail": f"wait still pending although a matching event was dispatched at t={first[0]}; {ctx}", "facts": facts})
                elif done[0] != "event":
                    viol.append({"clause": "C17.first" if done[0] == "timeout" else "C17.exclusive", "detail": f"wait ended with {done[0]} at t={done[1]} although a matching event was dispatched at t={first[0]} before the timeout; {ctx}", "facts": facts})
                else:
                    if done[1] != first[0]:
                        viol.append({"clause": "C17.first", "detail": f"wait returned at t={done[1]}, first match was dispatched at t={first[0]}; {ctx}", "facts": facts})
                    else:
                        exp = (first[1][2], first[1][3])
                        if done[2] != exp:
                            if shuffled and len(same_instant) > 1 and any(done[2] == (c[1][2], c[1][3]) for c in same_instant):
                                probes["same_instant_order_shuffled"] = probes.get("same_instant_order_shuffled", 0) + 1
                            else:
                                viol.append({"clause": "C17.first", "detail": f"wait returned event {done[2]} but the first matching event was {exp}"
                                             f" ({len(same_instant)} matching events in that instant); {ctx}", "facts": dict(facts, same_instant=len(same_instant))})
                if len(same_instant) > 1:
                    probes["several_matches_in_one_instant"] = probes.get("several_matches_in_one_instant", 0) + 1
                completion = first[0]
            elif deadline is not None:
                if done is None:
                    viol.append({"clause": "C17.timeout", "detail": f"no match before the timeout but the wait is still pending at t={END}; {ctx}", "facts": facts})
                elif done[0] != "timeout":
                    viol.append({"clause": "C17.timeout", "detail": f"no match before the timeout (t={deadline}) but the wait ended with {done[0]} at t={done[1]}; {ctx}", "facts": facts})
                elif done[1] != deadline:
                    viol.append({"clause": "C17.timeout", "detail": f"timeout raised at t={done[1]}, expected t={deadline}; {ctx}", "facts": facts})
                completion = deadline
            else:
                if done is not None:
                    viol.append({"clause": "C17.pending", "detail": f"no timeout and no match, yet the wait ended with {done[0]} at t={done[1]}; {ctx}", "facts": facts})
                completion = None
            if viol:
                break
            # ---- polling (only decidable with a single wait or in direct mode by request content) ----
            if len(scen["waits"]) == 1:
                if scen["mode"] == "direct":
                    polls = [t for t, v in sent if v[0] == "getProperties"]
                else:
                    # network mode: polls are observed at the stub server; zero latency => arrival instant == send instant
                    polls = []
                    acc = b""
                    for t, data in ctl.timed:
                        before = acc[base_len:].count(b"<getProperties ")
                        acc += data
                        polls += [t] * (acc[base_len:].count(b"<getProperties ") - before)
                    sent = [(t, ("getProperties", (("device", "D"), ("name", "V")) if w["filter_dev"] else (("name", "V"),), None, ())) for t in polls]
                if polls is not None:
                    exp_polls = []
                    if w["poll"] is not None:
                        d, iv = w["poll"]
                        t = s + d
                        while t < (completion if completion is not None else END) and t <= END:
                            exp_polls.append(t)
                            t += iv
                    tie = completion if completion is not None else None
                    got = [p for p in polls if p != tie and p < END]
                    want = [p for p in exp_polls if p != tie and p < END]
                    if got != want:
                        viol.append({"clause": "C17.poll", "detail": f"getProperties sent at {polls}, expected at {exp_polls} (completion {completion}); {ctx}", "facts": facts})
                        break
                    if w["poll"] is not None and want:
                        probes["polls_checked"] = probes.get("polls_checked", 0) + len(want)
                        v = [v for t, v in sent if v[0] == "getProperties"][0]
                        a = dict(v[1])
                        if a.get("name") != "V" or (w["filter_dev"] and a.get("device") != "D"):
                            viol.append({"clause": "C17.poll", "detail": f"poll request {v} does not carry the waited device/property; {ctx}", "facts": facts})
                            break
        if not viol:
            # cleanup: every finished wait removed its callback; pending ones keep exactly one
            pending = sum(1 for r in results.values() if r["done"] is None)
            if len(client.callbacks) != base_cb + pending:
                viol.append({"clause": "C17.cleanup", "detail": f"{len(client.callbacks) - base_cb} callbacks left registered with {pending} waits still pending", "facts": {}})
            # no poll after the last completion
            if scen["mode"] == "direct" and pending == 0 and results:
                last = max(r["done"][1] for r in results.values())
                late = [t for t, v in sent if v[0] == "getProperties" and t > last]
                if late:
                    viol.append({"clause": "C17.cleanup", "detail": f"getProperties still sent at {late[:5]} after every wait had completed (t={last})", "facts": {}})
        for name, exc in loop.task_failures():
            if not viol:
                viol.append({"clause": "C17.exclusive", "detail": f"task {name} failed: {exc!r}", "facts": {}})
        digest = sim.digest() + "|" + repr([(i, r["done"]) for i, r in sorted(results.items())])
        import hashlib
        digest = hashlib.sha256(digest.encode()).hexdigest()
        vtime, steps = loop.time(), loop.steps
    rel = []
    for w in scen["waits"]:
        rel.append((w["ck"], w["ek"], w["timeout"] is not None, w["poll"] is not None))
    sig = repr((scen["mode"], tuple(rel), len(scen["events"]), tuple(sorted(probes))))
    inside = any(e["t"] > w["start"] for w in scen["waits"] for e in scen["events"])
    return {"violations": viol[:1], "digest": digest, "probes": probes, "faults": {}, "steps": steps, "vtime": vtime, "sig": sig,
            "nontrivial": inside, "sample": {"mode": scen["mode"], "waits": scen["waits"], "events": scen["events"][:8]}}


def simplify(scen):
    if len(scen["waits"]) > 1:
        for i in range(len(scen["waits"])):
            c = copy.deepcopy(scen)
            del c["waits"][i]
            yield c
    if scen["mode"] != "direct":
        c = copy.deepcopy(scen)
        c["mode"] = "direct"
        yield c
    if scen["tie_shuffle"]:
        c = copy.deepcopy(scen)
        c["tie_shuffle"] = False
        yield c
    for i, w in enumerate(scen["waits"]):
        if w["poll"] is not None:
            c = copy.deepcopy(scen)
            c["waits"][i]["poll"] = None
            yield c
