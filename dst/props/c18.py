"""C18 - every way a connection can end leaves the router clean and the others served."""
from __future__ import annotations

import copy
import random

from indi.device.events import Write, on
from indi.transport.server import tcp as server_tcp

from ..env import Sim
from ..ref.structural import view_of_xml
from ..ref.xmlsplit import parse_elements
from ..simnet import NetConfig
from ..simpool import PoolConfig
from ..worlds.ops import apply_step
from ..worlds.stack import Stack
from .. import watchdog
from . import c01

ID = "C18"
LEVEL = "fault_enumeration"
TECHNIQUE = "deterministic simulation with connection-level fault injection: every fault kind {EOF, reset, EOF inside a message, junk then EOF, handler exception, silent peer death (write error), TTY stdin EOF, handler exception on the TTY channel, a write() call that raises} injected at every step index of seeded multi-connection session scripts (optionally with one transient send failure on a surviving connection) on real TCP/TTY handlers; router membership, BLOB routing, delivery to survivors and to a reconnecting peer checked"
RULE = ("scenario = session script of 2-3 concurrent connections (raw peers, a library client, optionally the TTY channel): handshakes, "
        "enableBLOB, writes, device text/BLOB updates x ONE fault (kind x step index, enumerated round-robin over the run index; two faults "
        "and more connections in the thorough tier) x network knobs; afterwards further device traffic, then a reconnect; distinct = "
        "(fault kind, position class, victim had BLOB policy, tty present, net knobs); non-trivial = the fault fired while the victim was registered")
COMPONENTS = dict(c01.COMPONENTS, real=c01.COMPONENTS["real"] + ["indi.transport.server.tty on SimPool", "indi.device.events (@on Write handler)"],
                  stub=c01.COMPONENTS["stub"] + ["raw TCP peers (victim, bystanders, reconnecting peer)", "stub indiserver (stdin/stdout)"])
ASSUMPTIONS = [
    "messages in flight to or from the dying connection may be lost; nothing else may",
    "a peer that vanishes without FIN is only noticed when the server next writes to it (as with real TCP); cleanliness is demanded at quiescence after the next device message",
    "delivery 'attempted' means the router handing a message to the connection's handler after it was unregistered",
]
QUICK_RUNS = 2700
QUICK_BUDGET_S = 150
THOROUGH_BUDGET_S = 360
CHUNK = 50
STEP_KEYS = ("steps",)
LOG_FORWARDED = ["indi.transport.server.tcp", "indi.transport.server.tty", "indi.routing.router", "indi.device.driver",
                 "indi.device.properties.instance.vectors", "indi.device.properties.instance.elements"]
FAULTS = ["eof", "reset", "eof_mid_message", "junk_then_eof", "handler_exception", "write_error", "tty_eof", "tty_handler_exception", "write_raises"]


def _device():
    txt = {"kind": "Text", "name": "TXT", "label": None, "state": "Ok", "perm": "rw", "timeout": 0, "enabled": True,
           "elements": {"e0": {"name": "T0", "label": None, "default": "init", "enabled": True},
                        "e1": {"name": "T1", "label": None, "default": "init", "enabled": True}}, "rule": None, "default_on": None}
    blob = {"kind": "BLOB", "name": "IMG", "label": None, "state": "Ok", "perm": "ro", "timeout": 0, "enabled": True,
            "elements": {"e0": {"name": "B0", "label": None, "default": None, "enabled": True}}, "rule": None, "default_on": None}
    return {"name": "D", "name_via": "class", "levels": [{"groups": {"g0": {"name": "MAIN", "enabled": True, "vectors": {"v0": txt, "v1": blob}}}}]}


def _extra(spec):
    def extra(dct):
        eldef = dct["g0"].vectors["v0"].elements["e0"]

        @on(eldef, Write)
        def boom(self, event):
            if event.new_value == "BOOM":
                raise RuntimeError("injected handler exception")
            if event.new_value == "CANCEL":
                # the handler looks at the outcome of a job that was cancelled: asyncio.CancelledError, not an Exception subclass
                import asyncio
                fut = asyncio.get_running_loop().create_future()
                fut.cancel()
                fut.result()

        return {"boom": boom}
    return extra


_REAL_NOW = []


def _reset_logging():
    """Idempotent: undo whatever a (possibly aborted) earlier run of this process did to the logging set-up."""
    import logging
    import indi.logging as _IL
    if not _REAL_NOW:
        _REAL_NOW.append(_IL.now)
    for _n in LOG_FORWARDED:
        lg = logging.getLogger(_n)
        for h in list(lg.handlers):
            lg.removeHandler(h)
        lg.propagate = True
    root = logging.getLogger()
    for h in list(root.handlers):
        if isinstance(h, logging.NullHandler):
            root.removeHandler(h)
    _IL.now = _REAL_NOW[0]
    logging.disable(logging.CRITICAL)


def generate(seed, tier, index):
    rng = random.Random(seed)
    thorough = tier == "thorough"
    fault = FAULTS[index % len(FAULTS)]
    nby = rng.randint(1, 2 if not thorough else 3)
    tty = rng.random() < 0.4 or fault.startswith("tty_")
    libclient = rng.random() < 0.5
    n = rng.randint(6, 14)
    script = []
    for _ in range(n):
        r = rng.random()
        who = rng.choice(["victim"] + [f"by{i}" for i in range(nby)])
        if r < 0.15:
            script.append({"op": "getprops", "who": who})
        elif r < 0.3:
            script.append({"op": "enableblob", "who": who, "value": rng.choice(["Also", "Only", "Never"])})
        elif r < 0.45:
            script.append({"op": "write", "who": who})
        elif r < 0.75:
            script.append({"op": "dev_text"})
        elif r < 0.9:
            script.append({"op": "dev_blob"})
        else:
            script.append({"op": "gap", "dt": rng.choice([0.0, 0.001, 0.1, 1.0])})
            if rng.random() < 0.5:
                script[-1]["iters"] = rng.randint(1, 8)
    pos = (index // len(FAULTS)) % (n + 1)
    steps = script[:pos] + [{"op": "fault", "kind": fault, "cut": rng.random()}] + script[pos:]
    if thorough and rng.random() < 0.5:
        f2 = rng.choice(["eof", "reset", "junk_then_eof", "write_error"])
        steps.insert(rng.randint(pos + 1, len(steps)), {"op": "fault", "kind": f2, "cut": rng.random(), "victim": "by0"})
    if rng.random() < 0.2:
        # a bystander's connection has one transient send failure (it loses that one message and stays up): it is one of the
        # "other connections" when the victim's ends, and keeps receiving device traffic
        steps.insert(rng.randint(0, len(steps)), {"op": "hiccup", "who": "by0"})
    net = {"latency": rng.choice(["zero", "lan", "slow", "bursty"]), "frag": rng.choice(["whole", "fixed:7", "random", "coalesce"]),
           "hwm": rng.choice([0, 64, 65536])}
    return {"steps": steps, "nby": nby, "tty": tty, "libclient": libclient, "net": net, "seed": rng.randrange(1 << 30),
            "exc_kind": rng.choice(["runtime", "runtime", "cancelled"]), "log_forward": rng.random() < 0.25,
            "pos_class": "first" if pos == 0 else ("last" if pos == n else "mid"), "pool": rng.randint(2, 4)}


class Conn:
    def __init__(self, stack, name):
        self.name = name
        self.peer = stack.add_raw(name)
        stack.sim.settle()
        self.handler = server_tcp.ConnectionHandler.connections[-1]
        self.srv_transport = self.peer.transport.peer
        self.dead = False
        self.policy = None


_cache = {}


def _count(text, needle):
    """Number of setTextVector messages in a received stream that carry the value `needle` is built from ('>val<')."""
    val = needle[1:-1]
    key = id(text), len(text)
    if key not in _cache:
        _cache.clear()
        try:
            els, tail, junk = parse_elements(text)
        except Exception:
            els = []
        _cache[key] = (text, [[(k.text or "").strip() for k in e] for e in els if e.tag == "setTextVector"])
    return sum(1 for kids in _cache[key][1] if val in kids)


def _count(text, needle):  # noqa: F811 - by unique emission stamp (a later update of a sibling repeats the value)
    stamp = needle[1:-1]
    return text.count(f'timestamp="{stamp}"')


def execute(scen):
    net = scen["net"]
    cfg = NetConfig(latency=net["latency"], frag_default=net["frag"], hwm=net["hwm"])
    viol, probes, faults = [], {}, {}
    facts = {"tty": scen["tty"]}
    fired_registered = False
    _reset_logging()
    with Sim(scen["seed"], cfg, PoolConfig(workers=scen["pool"])) as sim:
        stack = Stack(sim, [_device()], extra_attrs=_extra, with_tty=scen["tty"])
        router = stack.router
        log_handler = None
        if scen.get("log_forward"):
            # the library's own log-to-clients handler (indi.logging.Handler, installed by the example servers): whatever the
            # server logs at WARNING or above is routed to every client as a <message>
            import logging
            import indi.logging as _IL
            import indi.message as _IM
            from indi.logging import Handler as LogToClients
            _il_now = _IL.now
            _IL.now = _IM.now  # (indi.logging binds `now` at import time: give it this run's emission-stamp clock)
            logging.disable(logging.NOTSET)
            null_handler = logging.NullHandler()
            logging.getLogger().addHandler(null_handler)  # (nothing is to be printed: the root logger gets a sink)
            log_handler = LogToClients(router)
            log_handler.setLevel(logging.WARNING)
            # (attached to the server-side loggers only: in this simulation the library's client runs in the same process, and
            # what a client logs about a <message> it cannot read must not be fed back to it as another <message>)
            for _n in LOG_FORWARDED:
                _lg = logging.getLogger(_n)
                _lg.addHandler(log_handler)
                _lg.setLevel(logging.WARNING)
                _lg.propagate = False
            probes["server_log_forwarded_to_clients"] = 1
        conns = {"victim": Conn(stack, "victim")}
        for i in range(scen["nby"]):
            conns[f"by{i}"] = Conn(stack, f"by{i}")
        if scen["libclient"]:
            stack.add_client(start=True)
            sim.settle()
        tty_handler = None
        if scen["tty"]:
            tty_handler = [c for c in router.clients if type(c).__module__.endswith("tty")][0]
        keep = [c.handler for c in conns.values()]
        # spy: hand-overs to handlers after they were unregistered
        unregistered = []
        late = []
        orig_unreg = router.unregister_client

        def unreg(client):
            unregistered.append(client)
            return orig_unreg(client)

        router.unregister_client = unreg
        orig_mfd = server_tcp.ConnectionHandler.message_from_device

        def mfd(self, message):
            if any(self is u for u in unregistered):
                late.append((self, message.tag_name()))
            return orig_mfd(self, message)

        server_tcp.ConnectionHandler.message_from_device = mfd
        policy_now = {}  # handler object -> policy for device D as the router has it
        policy_at = {}  # emission stamp -> {conn name: policy}

        def hook(origin, sender, message):
            tag = message.tag_name()
            if tag == "enableBLOB" and message.device == "D" and sender is not None:
                policy_now[id(sender)] = message.value
            elif origin == "driver" and tag == "setTextVector":
                policy_at[message.timestamp] = {n: policy_now.get(id(c.handler)) for n, c in conns.items()}

        stack.hooks.append(hook)
        serial = [0]
        sent_text = []  # unique emission stamps of the device text updates, in order
        sent_vals = []
        dead_at = {}  # conn name -> index into sent_text at time of death
        tty_dead_at = [None]

        def dev_text():
            serial[0] += 1
            val = f"u{serial[0]}q"
            apply_step(stack, {"op": "d_assign", "dev": "D", "vec": "TXT", "el": "T1", "value": val})
            last = [v for o, _, v in stack.router_log if o == "driver"][-1]
            sent_text.append(dict(last[1])["timestamp"])
            sent_vals.append(val)

        def dev_blob():
            serial[0] += 1
            apply_step(stack, {"op": "d_assign", "dev": "D", "vec": "IMG", "el": "B0",
                               "value": {"blob_hex": (b"blob%d" % serial[0]).hex(), "format": ".b"}})

        BOOM = '<newTextVector device="D" name="TXT"><oneText name="T0">%s</oneText></newTextVector>' % ("CANCEL" if scen.get("exc_kind") == "cancelled" else "BOOM")
        if scen.get("exc_kind") == "cancelled":
            probes["handler_raises_CancelledError"] = 1
        NEXT = '<newTextVector device="D" name="TXT"><oneText name="T1">pipelined</oneText></newTextVector>'

        def boom_text(cut):
            """The message whose handler fails - alone, or (pipelined client) with the beginning of, or the whole of, the
            client's next message behind it in the same read / line."""
            if cut < 0.4:
                return BOOM + "\n"
            if cut < 0.8:
                probes["failing_message_followed_by_partial_next"] = probes.get("failing_message_followed_by_partial_next", 0) + 1
                return BOOM + NEXT[: max(1, int(len(NEXT) * (cut - 0.4) / 0.4))] + "\n"
            probes["failing_message_followed_by_complete_next"] = probes.get("failing_message_followed_by_complete_next", 0) + 1
            return BOOM + NEXT + "\n"

        def rng_piece(msg, frac):
            return msg[: max(1, min(len(msg) - 1, int(len(msg) * frac)))]

        def do_fault(kind, cut, who):
            nonlocal fired_registered
            if kind.startswith("tty_"):
                if not scen["tty"] or tty_dead_at[0] is not None:
                    return
                fired_registered = tty_handler in router.clients
                if kind == "tty_eof":
                    if cut < 0.5:
                        # end of input in the middle of a line (the peer died while writing): a last, unterminated piece, then EOF
                        msg = '<newTextVector device="D" name="TXT"><oneText name="T1">never-complete</oneText></newTextVector>'
                        stack.stdin_file.feed(rng_piece(msg, cut * 2))
                        probes["tty_eof_inside_a_line"] = probes.get("tty_eof_inside_a_line", 0) + 1
                    stack.stdin_file.feed_eof()
                else:
                    # an error while a message from the TTY peer is handled ends that channel (it *is* the connection)
                    stack.stdin_file.feed(boom_text(cut))
                tty_dead_at[0] = len(sent_text)
                faults[kind] = faults.get(kind, 0) + 1
                return
            c = conns[who]
            if c.dead:
                return
            fired_registered = fired_registered or (c.handler in router.clients)
            faults[kind] = faults.get(kind, 0) + 1
            # (a transient send failure still pending on this very connection is dropped: it would swallow the one write
            # through which the server can notice that the peer is gone)
            c.srv_transport.fail_next_write_keep = None
            c.dead = True
            dead_at[who] = len(sent_text)
            p = c.peer
            if kind == "eof":
                sim.do(p.close)
            elif kind == "reset":
                sim.do(sim.net.fault_reset, c.srv_transport)
            elif kind == "eof_mid_message":
                msg = '<newTextVector device="D" name="TXT"><oneText name="T1">never-complete</oneText></newTextVector>'
                k = max(1, int(len(msg) * cut))
                sim.do(p.send, msg[:k])
                sim.do(p.close)
            elif kind == "junk_then_eof":
                sim.do(p.send, "<<<garbage \x00\xff <defTextVector <oneLight>> &&& " * 3)
                sim.do(p.close)
            elif kind == "handler_exception":
                sim.do(p.send, boom_text(cut))
            elif kind == "write_raises":
                # a failing system call: the server's next write() to this peer raises synchronously (and the connection is dead)
                c.srv_transport.fail_next_write = BrokenPipeError("sim: injected EPIPE in write()")
            elif kind == "write_error":
                # the peer vanishes without FIN; the server finds out when it next writes
                def vanish():
                    p.transport._closing = True
                    p.transport._closed_reading = True
                    p.transport._conn_lost = True
                sim.do(vanish)

        hiccup = set()
        for st in scen["steps"]:
            if viol:
                break
            op = st["op"]
            who = st.get("who")
            if op == "gap":
                sim.gap(st)
            elif op == "fault":
                do_fault(st["kind"], st["cut"], st.get("victim", "victim"))
            elif op == "dev_text":
                dev_text()
            elif op == "dev_blob":
                dev_blob()
            elif who and conns[who].dead:
                continue
            elif op == "hiccup":
                conns[who].srv_transport.fail_next_write_keep = OSError(105, "sim: injected ENOBUFS in write()")
                hiccup.add(who)
                probes["transient_send_failure_on_a_bystander"] = probes.get("transient_send_failure_on_a_bystander", 0) + 1
            elif op == "getprops":
                sim.do(conns[who].peer.send, '<getProperties version="1.7"/>\n')
            elif op == "enableblob":
                conns[who].policy = st["value"]
                sim.do(conns[who].peer.send, f'<enableBLOB device="D">{st["value"]}</enableBLOB>\n')
            elif op == "write":
                serial[0] += 1
                sim.do(conns[who].peer.send, f'<newTextVector device="D" name="TXT"><oneText name="T0">w{serial[0]}</oneText></newTextVector>\n')
        # after the script: let things settle, then more device traffic (this is what makes a silent death visible)
        sim.settle()
        for _ in range(2):
            dev_text()
            sim.settle()
        dev_blob()
        sim.settle()
        facts["fault"] = [s["kind"] for s in scen["steps"] if s["op"] == "fault"][0]
        ctx = f"faults={[s['kind'] for s in scen['steps'] if s['op'] == 'fault']} pos={scen['pos_class']}"
        if watchdog.S.tripped:
            viol.append({"clause": "C18.server", "detail": f"watchdog {watchdog.S.tripped}; {ctx}", "facts": facts})
        # ---- forgotten ----
        for name, c in conns.items():
            if viol:
                break
            if not c.dead:
                continue
            h = c.handler
            where = []
            if h in router.clients:
                where.append("Router.clients")
            if h in router.blob_routing:
                where.append("Router.blob_routing")
            if h in server_tcp.ConnectionHandler.connections:
                where.append("ConnectionHandler.connections")
            if not c.srv_transport.is_closing():
                where.append("transport still open")
            if where:
                viol.append({"clause": "C18.forgotten", "detail": f"dead connection {name} still in {where}; {ctx}", "facts": facts})
        if not viol and late:
            viol.append({"clause": "C18.silent", "detail": f"router handed {len(late)} message(s) ({late[0][1]}) to a handler after it was unregistered; {ctx}", "facts": facts})
        # ---- served ----
        if not viol:
            for name, c in conns.items():
                if c.dead:
                    continue
                rx = c.peer.text
                spare = 1 if name in hiccup else 0  # (the one message whose write failed)
                for i, val in enumerate(sent_text):
                    k = _count(rx, f">{val}<")
                    pol = policy_at.get(val, {}).get(name)
                    if pol == "Only":
                        want = 0
                        if k != 0:
                            viol.append({"clause": "C18.served", "detail": f"{name} (policy Only) received text update {val}; {ctx}", "facts": facts})
                            break
                        continue
                    if k == 0 and spare:
                        spare -= 1
                        continue
                    if k != 1:
                        viol.append({"clause": "C18.served", "detail": f"surviving connection {name} received device update #{i} ({val}) {k} times; {ctx}", "facts": facts})
                        break
                if viol:
                    break
                if c.handler not in router.clients or c.peer.lost is not None or c.peer.eof:
                    viol.append({"clause": "C18.served", "detail": f"surviving connection {name} was closed/unregistered by the server; {ctx}", "facts": facts})
                    break
        if not viol and scen["libclient"]:
            node = stack.clients[0]
            d = node.client.get_device("D")
            mv = d.get_vector("TXT") if d else None
            if mv is None or mv.get_element("T1").value != sent_vals[-1]:
                viol.append({"clause": "C18.served", "detail": f"the library client did not receive the last device update; {ctx}", "facts": facts})
        if not viol and scen["tty"]:
            out = stack.stdout_file.flushed_text
            upto = len(sent_text) if tty_dead_at[0] is None else tty_dead_at[0]
            for i, val in enumerate(sent_text[:upto]):
                if _count(out, f">{val}<") != 1:
                    viol.append({"clause": "C18.served", "detail": f"TTY channel received device update #{i} {_count(out, '>' + val + '<')} times; {ctx}", "facts": facts})
                    break
            if tty_dead_at[0] is None and (stack.tty_task.done() or tty_handler not in router.clients):
                viol.append({"clause": "C18.server", "detail": f"the TTY handler stopped although the fault was on a TCP connection; {ctx}", "facts": facts})
            if tty_dead_at[0] is not None and not viol:
                if tty_handler in router.clients or tty_handler in router.blob_routing:
                    viol.append({"clause": "C18.forgotten", "detail": f"TTY handler still registered after stdin EOF; {ctx}", "facts": facts})
                extra = [v for v in sent_text[tty_dead_at[0] + 1:] if _count(out, f">{v}<")]
                if extra and False:
                    pass
        # ---- server + fresh reconnect ----
        if not viol:
            if stack.server_task.done():
                viol.append({"clause": "C18.server", "detail": f"the TCP server task ended; {ctx}", "facts": facts})
            else:
                try:
                    re = Conn(stack, "reconnect")
                except Exception as e:  # noqa
                    viol.append({"clause": "C18.server", "detail": f"cannot reconnect: {e!r}; {ctx}", "facts": facts})
                    re = None
                if re is not None:
                    dev_blob()
                    dev_text()
                    sim.settle()
                    rx = re.peer.text
                    if "setBLOBVector" in rx:
                        viol.append({"clause": "C18.fresh", "detail": f"a reconnecting peer received a BLOB without asking (stale routing); {ctx}", "facts": facts})
                    elif _count(rx, f">{sent_text[-1]}<") != 1:
                        viol.append({"clause": "C18.fresh", "detail": f"a reconnecting peer did not receive ordinary device traffic; {ctx}", "facts": facts})
                    else:
                        sim.do(re.peer.send, '<enableBLOB device="D">Also</enableBLOB>\n')
                        sim.settle()
                        dev_blob()
                        sim.settle()
                        if "setBLOBVector" not in re.peer.text:
                            viol.append({"clause": "C18.fresh", "detail": f"a reconnecting peer that enabled BLOBs did not receive one; {ctx}", "facts": facts})
        if not viol:
            bad = [e for e in stack.escaped() if "ConnectionResetError" not in e and "BrokenPipe" not in e and "Connection lost" not in e
                   and "injected ENOBUFS" not in e]
            if bad:
                viol.append({"clause": "C18.server", "detail": f"escaped: {bad[:2]}; {ctx}", "facts": facts})
        for k in ("write_after_close", "rst_on_write_to_closed_peer", "bytes_dropped_receiver_gone"):
            if sim.net.counters.get(k):
                probes[k] = sim.net.counters[k]
        server_tcp.ConnectionHandler.message_from_device = orig_mfd
        if log_handler is not None:
            import logging
            for _n in LOG_FORWARDED:
                logging.getLogger(_n).removeHandler(log_handler)
                logging.getLogger(_n).propagate = True
            logging.getLogger().removeHandler(null_handler)
            logging.disable(logging.CRITICAL)
            _IL.now = _il_now
        digest = sim.digest()
        vtime, steps = sim.loop.time(), sim.loop.steps
    vp = [s for s in scen["steps"] if s["op"] == "enableblob" and s["who"] == "victim"]
    sig = repr((tuple(s["kind"] for s in scen["steps"] if s["op"] == "fault"), scen["pos_class"], bool(vp), scen["tty"], scen["libclient"], net["latency"], net["frag"]))
    return {"violations": viol[:1], "digest": digest, "probes": probes, "faults": faults, "steps": steps, "vtime": vtime, "sig": sig,
            "nontrivial": fired_registered, "sample": {"steps": scen["steps"], "nby": scen["nby"], "tty": scen["tty"], "net": net}}


def repair(scen):
    if not any(s["op"] == "fault" for s in scen["steps"]):
        return None
    return scen


def simplify(scen):
    for k, v in (("latency", "zero"), ("frag", "whole"), ("hwm", 65536)):
        if scen["net"][k] != v:
            c = copy.deepcopy(scen)
            c["net"][k] = v
            yield c
    if scen["tty"] and not any(str(s.get("kind")).startswith("tty_") for s in scen["steps"]):
        c = copy.deepcopy(scen)
        c["tty"] = False
        yield c
    if scen["libclient"]:
        c = copy.deepcopy(scen)
        c["libclient"] = False
        yield c
    if scen["nby"] > 1:
        c = copy.deepcopy(scen)
        c["nby"] = 1
        c["steps"] = [s for s in c["steps"] if s.get("who") in (None, "victim", "by0")]
        yield c
