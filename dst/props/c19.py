"""C19 - outbound messages are whole and in order under every I/O schedule."""
from __future__ import annotations

import copy
import random

from indi import message as M
from indi.transport.client import tcp as client_tcp
from indi.transport.server import tcp as server_tcp

from ..env import RawPeer, Sim
from ..gen import drivers as G
from ..ref.structural import short, view_of_message, view_of_xml
from ..ref.xmlsplit import parse_elements, SplitError
from ..simnet import NetConfig
from ..simpool import PoolConfig
from ..worlds.ops import apply_step
from ..worlds.stack import Stack
from .. import watchdog
from . import c01

ID = "C19"
LEVEL = "exploration"
TECHNIQUE = "deterministic simulation of the outbound path: bursts routed to real TCP handlers over transports with tiny high-water marks (drain completion seeded), to the real TTY handler on a simulated K-worker pool (effect/completion order seeded) and from the real client connection handler; per-connection output compared with the routed order; one connection optionally stalled for ever"
RULE = ("scenario = bursts of 1..5 updates of one or two devices routed back-to-back (same loop iteration) or across iterations to 1-3 TCP connections "
        "and optionally the TTY channel x pool width 2..6 x pool jitter x high-water mark {0,1,64,64Ki} x latency/fragmentation x optional "
        "stall-for-ever of one connection (the simulated stdout delivers written data to the reader at flush() only); plus the client-side handler sending bursts to a stub server; distinct = signature (world, "
        "burst shapes, K, jitter, hwm, stall target, probes hit); non-trivial = at least one burst of >= 2 messages")
COMPONENTS = dict(c01.COMPONENTS, real=c01.COMPONENTS["real"] + ["indi.transport.server.tty on SimPool", "aiofiles wrappers"],
                  stub=c01.COMPONENTS["stub"] + ["SimPool (thread pool), stdout SimPipeFile", "raw TCP peers", "stub server for the client-side handler"])
ASSUMPTIONS = [
    "asyncio's FIFO ready queue is kept (documented guarantee); the explored freedom is drain completion, pool effect/completion order and stalls",
    "a pool job's effect instant is independent between workers (superset of a real thread pool for independent jobs)",
    "for a connection stalled for ever only the prefix property of what was delivered is demanded",
]
QUICK_RUNS = 10000
QUICK_BUDGET_S = 150
THOROUGH_BUDGET_S = 360
CHUNK = 40
STEP_KEYS = ("steps",)


def _device(name="D"):
    els = {f"e{i}": {"name": f"T{i}", "label": None, "default": "init", "enabled": True} for i in range(2)}
    v = {"kind": "Text", "name": "TXT", "label": None, "state": "Ok", "perm": "rw", "timeout": 0, "enabled": True,
         "elements": els, "rule": None, "default_on": None}
    b = {"kind": "BLOB", "name": "IMG", "label": None, "state": "Ok", "perm": "ro", "timeout": 0, "enabled": True,
         "elements": {"e0": {"name": "B0", "label": None, "default": None, "enabled": True}}, "rule": None, "default_on": None}
    return {"name": name, "name_via": "class" if name == "D" else "ctor", "levels": [{"groups": {"g0": {"name": "MAIN", "enabled": True, "vectors": {"v0": v, "v1": b}}}}]}


def generate(seed, tier, index):
    rng = random.Random(seed)
    thorough = tier == "thorough"
    world = rng.choice(["server", "server", "server", "clientconn"])
    steps = []
    for _ in range(rng.randint(1, 8 if thorough else 4)):
        steps.append({"op": "burst", "n": rng.randint(1, 5), "same_iteration": rng.random() < 0.5, "between": rng.randint(1, 4)})
        if rng.random() < 0.25:
            # one of the TCP peers asks for the properties: the answers (several definitions) are routed to it from inside the
            # handling of its own request, while updates from elsewhere keep being routed to the same connection
            steps.append({"op": "request", "peer": rng.randrange(3), "then_iters": rng.randint(0, 6)})
        r = rng.random()
        if r < 0.4:
            steps.append({"op": "gap", "dt": rng.choice([0.0, 0.0001, 0.001, 0.01, 1.0])})
        elif r < 0.8:
            # iteration-granular gap: the next burst is routed exactly k loop iterations later, i.e. possibly between
            # a drain completing, a lock being released and the next queued sender resuming
            steps.append({"op": "iters", "k": rng.randint(1, 8)})
    big = rng.random() < 0.12  # one update carries a value far above any chunking size a transport might use (64 KiB ...)
    if big:
        k = rng.randrange(len(steps))
        while steps[k]["op"] != "burst":
            k = (k + 1) % len(steps)
        steps[k]["big_at"] = rng.randrange(steps[k]["n"])
        steps[k]["big_len"] = rng.choice([70000, 140000, 200000])
    ntcp = rng.randint(1, 3)
    blob_peers = [i for i in range(ntcp) if rng.random() < 0.4]  # these connections ask for BLOBs (enableBLOB Also)
    if blob_peers:
        for st_ in steps:
            if st_["op"] == "burst":
                st_["blob_at"] = [i for i in range(st_["n"]) if rng.random() < 0.4]  # which updates of the burst are BLOB updates
    tty = rng.random() < 0.6
    if tty and rng.random() < 0.3:
        # the TTY peer's input ends right behind one of the bursts, while that burst's writes and flushes are still under way:
        # what was routed to the channel before its end must still come out whole
        bursts = [s_ for s_ in steps if s_["op"] == "burst"]
        rng.choice(bursts)["tty_eof_after"] = True
    targets = [f"tcp{i}" for i in range(ntcp)] + (["tty"] if tty else [])
    stall = rng.choice([None, None] + targets)
    if big:
        frag_choices = ["whole", "coalesce", "fixed:1024"]
    else:
        frag_choices = ["whole", "fixed:1", "fixed:7", "random", "coalesce"]
    return {"world": world, "steps": steps, "ntcp": ntcp, "tty": tty, "stall": stall,
            # updates come from two devices (which one: bit k of the pattern for the k-th update) or from one
            "dev_pattern": rng.randrange(1, 1 << 16) if rng.random() < 0.5 else 0,
            "repeat_pattern": rng.randrange(1, 1 << 16) if rng.random() < 0.5 else 0, "frag_choices": frag_choices, "blob_peers": blob_peers,
            "pool": {"workers": rng.randint(2, 6), "jitter": rng.choice(["none", "small", "small", "wide"])},
            "net": {"latency": rng.choice(["zero", "lan", "slow", "bursty"]), "frag": rng.choice(frag_choices),
                    "hwm": rng.choice([0, 1, 64, 65536])},
            "seed": rng.randrange(1 << 30), "tie_shuffle": rng.random() < 0.5}


def _split(text):
    els, tail, junk = parse_elements(text)
    return [view_of_xml(e) for e in els], tail, junk


def _check_output(name, text, routed, stalled, viol, facts):
    try:
        got, tail, junk = _split(text)
    except (SplitError, Exception) as e:  # noqa
        viol.append({"clause": "C19.whole", "detail": f"{name}: output does not split into XML elements: {e!r}: {text[:200]!r}", "facts": facts})
        return
    if junk:
        viol.append({"clause": "C19.whole", "detail": f"{name}: stray text between elements {junk[:2]!r}", "facts": facts})
        return
    if stalled:
        if got != routed[: len(got)]:
            viol.append({"clause": "C19.order", "detail": f"{name} (stalled): delivered part is not a prefix of the routed sequence", "facts": facts})
        return
    if tail.strip():
        viol.append({"clause": "C19.whole", "detail": f"{name}: output ends inside an element: {tail[:120]!r}", "facts": facts})
        return
    if got != routed:
        if sorted(map(repr, got)) == sorted(map(repr, routed)):
            first = next(i for i, (g, r) in enumerate(zip(got, routed)) if g != r)
            viol.append({"clause": "C19.order", "detail": f"{name}: messages out of routed order from position {first}: got {short(got[first], 100)} expected {short(routed[first], 100)}", "facts": facts})
        else:
            viol.append({"clause": "C19.whole", "detail": f"{name}: {len(got)} messages on the wire, {len(routed)} routed; first difference at "
                         f"{next((i for i, (g, r) in enumerate(zip(got, routed)) if g != r), min(len(got), len(routed)))}", "facts": facts})


def execute_server(scen, sim, viol, probes, facts):
    pattern = scen.get("dev_pattern", 0)
    stack = Stack(sim, [_device()] + ([_device("D2")] if pattern else []), with_tty=scen["tty"])
    if pattern:
        probes["updates_from_two_devices"] = 1
    peers = []
    for i in range(scen["ntcp"]):
        peers.append(stack.add_raw(f"tcp{i}"))
    sim.settle()
    for i in scen.get("blob_peers", []):
        sim.do(peers[i].send, '<enableBLOB device="D">Also</enableBLOB>\n' + ('<enableBLOB device="D2">Also</enableBLOB>\n' if pattern else ""))
    sim.settle()
    handlers = list(server_tcp.ConnectionHandler.connections)
    routed = {}  # name -> [views]
    names = {id(h): f"tcp{i}" for i, h in enumerate(handlers)}
    keep = list(handlers)
    orig_tcp = server_tcp.ConnectionHandler.message_from_device

    def spy_tcp(self, message):
        routed.setdefault(names.get(id(self), "?"), []).append(view_of_message(message))
        return orig_tcp(self, message)

    server_tcp.ConnectionHandler.message_from_device = spy_tcp
    tty_handler = None
    if scen["tty"]:
        tty_handler = [c for c in stack.router.clients if type(c).__module__.endswith("tty")][0]
        orig_tty = tty_handler.message_from_device

        def spy_tty(message):
            routed.setdefault("tty", []).append(view_of_message(message))
            return orig_tty(message)

        tty_handler.message_from_device = spy_tty
    try:
        stall = scen["stall"]
        if stall:
            if stall == "tty":
                stack.stdout_file.stalled = True
            else:
                i = int(stall[3:])
                sim.do(peers[i].transport.inp.stall, "forever")
            probes["stalled_connection"] = 1
        counter = [0]
        big = 0
        tty_eof = [False]

        def one_update(big_len=0, blob=False):
            counter[0] += 1
            dn = "D2" if (pattern >> (counter[0] % 16)) & 1 else "D"
            if blob:
                from indi.device.values import BLOB as BlobValue
                stack.el_obj(dn, "IMG", "B0").value = BlobValue(b"frame%d" % counter[0], ".f")
                probes["blob_update_in_burst"] = probes.get("blob_update_in_burst", 0) + 1
                return
            el = stack.el_obj(dn, "TXT", "T0" if counter[0] % 2 else "T1")
            el.value = f"u{counter[0]}" + ("x" * big_len)
            if big_len:
                probes["large_message_routed"] = probes.get("large_message_routed", 0) + 1

        for st in scen["steps"]:
            if st["op"] == "gap":
                sim.run_for(st["dt"])
                continue
            if st["op"] == "iters":
                sim.loop.step_iterations(st["k"])
                continue
            if st["op"] == "request":
                sim.do(peers[st["peer"] % len(peers)].send, '<getProperties version="1.7"/>\n')
                sim.loop.step_iterations(st["then_iters"])
                probes["peer_request_answered_amid_updates"] = probes.get("peer_request_answered_amid_updates", 0) + 1
                continue
            if st["same_iteration"]:
                def burst(n=st["n"], st=st):
                    for i in range(n):
                        one_update(st["big_len"] if st.get("big_at") == i else 0, i in st.get("blob_at", []))
                t0, s0 = sim.loop.time(), sim.loop.steps
                sim.do(burst)
                if sim.loop.time() != t0:
                    viol.append({"clause": "C19.isolated", "detail": "routing a burst advanced virtual time (the router waited for I/O)", "facts": facts})
            else:
                for i in range(st["n"]):
                    sim.do(one_update, st["big_len"] if st.get("big_at") == i else 0, i in st.get("blob_at", []))
                    sim.loop.step_iterations(st.get("between", 1))
            if st["n"] >= 2:
                big += 1
            if st.get("tty_eof_after") and scen["tty"] and not tty_eof[0]:
                stack.stdin_file.feed_eof()
                tty_eof[0] = True
                probes["tty_input_ended_while_output_was_under_way"] = 1
        # progress: run to quiescence (a connection stalled for ever holds no timer, so quiescence is still reached);
        # everything not stalled must then be complete
        sim.settle()
        if watchdog.S.tripped:
            viol.append({"clause": "C19.whole", "detail": f"watchdog {watchdog.S.tripped}", "facts": facts})
        esc = stack.escaped()
        if esc:
            viol.append({"clause": "C19.whole", "detail": f"escaped: {esc[:2]}", "facts": facts})
        total_routed = counter[0]
        for i, p in enumerate(peers):
            nm = f"tcp{i}"
            if viol:
                break
            r = routed.get(nm, [])
            want = total_routed if i in scen.get("blob_peers", []) else total_routed - probes.get("blob_update_in_burst", 0)
            if sum(1 for v_ in r if v_[0].startswith("set")) != want:
                viol.append({"clause": "C19.isolated", "detail": f"{nm}: {len(r)} of {want} updates were routed to this connection", "facts": facts})
                break
            _check_output(nm, p.text, r, stall == nm, viol, dict(facts, channel="tcp"))
        if scen["tty"] and not viol:
            r = routed.get("tty", [])
            if sum(1 for v_ in r if v_[0].startswith("set")) != total_routed - probes.get("blob_update_in_burst", 0) and not tty_eof[0]:
                viol.append({"clause": "C19.isolated", "detail": f"tty: only {len(r)} of {total_routed} updates were routed to this connection", "facts": facts})
            else:
                # (the flushed part: what is written but still sits in the stream buffer has not reached the reader)
                _check_output("tty", stack.stdout_file.flushed_text, r, stall == "tty", viol, dict(facts, channel="tty"))
                if not viol and stack.stdout_file.text != stack.stdout_file.flushed_text and stall == "tty":
                    probes["tty_stalled_with_unflushed_data"] = 1
        if stall and not viol:
            # the stalled connection must have delayed only itself: checked above by the others being complete
            probes["others_complete_despite_stall"] = 1
        if sim.pool.counters.get("effect_out_of_submission_order"):
            probes["pool_effects_out_of_submission_order"] = sim.pool.counters["effect_out_of_submission_order"]
        if sim.net.counters.get("pause_writing"):
            probes["drain_blocked(pause_writing)"] = sim.net.counters["pause_writing"]
        return big
    finally:
        server_tcp.ConnectionHandler.message_from_device = orig_tcp


def execute_clientconn(scen, sim, viol, probes, facts):
    """The client's connection to a server: bursts of send_message."""
    srv_peers = []

    def factory():
        p = RawPeer(sim, "stubserver")
        srv_peers.append(p)
        return p

    sim.spawn(sim.loop.create_server(factory, "sim", 7624))
    sim.settle()
    box = []

    async def connect():
        h = await client_tcp.TCP("sim", 7624).connect(lambda m: None)
        box.append(h)
        await h.wait_for_messages()

    sim.spawn(connect())
    sim.settle()
    h = box[0]
    sent = []
    counter = [0]
    if scen["stall"]:
        sim.do(srv_peers[0].transport.inp.stall, 30.0)
        probes["stalled_connection"] = 1

    rep = scen.get("repeat_pattern", 0)
    last_val = [None]
    reuse = [None]

    def one():
        counter[0] += 1
        val = f"u{counter[0]}" if counter[0] % 4 else "g"  # every fourth message is a getProperties
        if last_val[0] is not None and (rep >> (counter[0] % 16)) & 1:
            # the application sends the very same request again (a repeated guide pulse, a re-sent getProperties): a message
            # byte-identical to the one before it is still a message of its own
            val = last_val[0]
            probes["identical_message_repeated"] = probes.get("identical_message_repeated", 0) + 1
        last_val[0] = val
        if val == "g":
            msg = M.GetProperties(version="1.7", device="D")
        elif reuse[0] is not None and (counter[0] * 7 + rep) % 5 == 0:
            # the application keeps one message object and updates it in place for the next command (send_message has taken
            # what it was given by the time it returns): each send carries the content the object had when it was sent
            msg = reuse[0]
            msg.children[0].value = val
            probes["message_object_reused"] = probes.get("message_object_reused", 0) + 1
        else:
            msg = M.NewTextVector(device="D", name="TXT", children=(M.one_parts.OneText(name="T0", value=val),))
            reuse[0] = msg
        sent.append(view_of_message(msg))
        h.send_message(msg)

    big = 0
    for st in scen["steps"]:
        if st["op"] == "gap":
            sim.run_for(st["dt"])
            continue
        if st["op"] == "iters":
            sim.loop.step_iterations(st["k"])
            continue
        if st["op"] == "request":
            continue  # (server world only)
        if st["same_iteration"]:
            def burst(n=st["n"]):
                for _ in range(n):
                    one()
            sim.do(burst)
        else:
            for _ in range(st["n"]):
                sim.do(one)
                sim.loop.step_iterations(st.get("between", 1))
        if st["n"] >= 2:
            big += 1
    sim.settle()
    for name, exc in sim.loop.task_failures():
        viol.append({"clause": "C19.whole", "detail": f"task {name} failed {exc!r}", "facts": facts})
    if not viol:
        _check_output("client->server", srv_peers[0].text, sent, False, viol, dict(facts, channel="client"))
    if sim.net.counters.get("pause_writing"):
        probes["drain_blocked(pause_writing)"] = sim.net.counters["pause_writing"]
    return big


def execute(scen):
    net = scen["net"]
    cfg = NetConfig(latency=net["latency"], frag_default=net["frag"], hwm=net["hwm"])
    viol, probes = [], {}
    facts = {"world": scen["world"], "workers": scen["pool"]["workers"], "stall": scen["stall"]}
    with Sim(scen["seed"], cfg, PoolConfig(workers=scen["pool"]["workers"], jitter=scen["pool"]["jitter"]),
             tie_shuffle=scen.get("tie_shuffle", False)) as sim:
        if scen["world"] == "server":
            big = execute_server(scen, sim, viol, probes, facts)
        else:
            big = execute_clientconn(scen, sim, viol, probes, facts)
        faults = {}
        if scen["stall"]:
            faults["stall_forever" if scen["world"] == "server" else "stall_30s"] = 1
        digest = sim.digest()
        vtime, steps = sim.loop.time(), sim.loop.steps
    shapes = tuple((s["n"], s["same_iteration"]) for s in scen["steps"] if s["op"] == "burst")
    sig = repr((scen["world"], shapes, scen["pool"], net["hwm"], scen["stall"], scen["ntcp"], scen["tty"], tuple(sorted(probes))))
    return {"violations": viol[:1], "digest": digest, "probes": probes, "faults": faults, "steps": steps, "vtime": vtime, "sig": sig,
            "nontrivial": bool(big), "sample": {k: scen[k] for k in ("world", "steps", "ntcp", "tty", "stall", "pool", "net")}}


def simplify(scen):
    for k, v in (("latency", "zero"), ("frag", "whole"), ("hwm", 65536)):
        if scen["net"][k] != v:
            c = copy.deepcopy(scen)
            c["net"][k] = v
            yield c
    if scen["pool"]["workers"] > 2:
        c = copy.deepcopy(scen)
        c["pool"]["workers"] = 2
        yield c
    if scen["ntcp"] > 1:
        c = copy.deepcopy(scen)
        c["ntcp"] = 1
        if c["stall"] and c["stall"].startswith("tcp") and c["stall"] != "tcp0":
            c["stall"] = None
        yield c
    if scen["stall"]:
        c = copy.deepcopy(scen)
        c["stall"] = None
        yield c
    for i, s in enumerate(scen["steps"]):
        if s["op"] == "burst" and s["n"] > 2:
            c = copy.deepcopy(scen)
            c["steps"][i]["n"] = 2
            yield c
