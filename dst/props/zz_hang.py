"""Not a property: a fixture for `./check selftest` that proves the runner names a run that never returns.
Run index 3 spins for ever; every other run finishes at once."""
ID = "ZZ_HANG"
LEVEL = "exploration"
TECHNIQUE = "fixture"
RULE = "fixture"
COMPONENTS = {"real": [], "stub": []}
ASSUMPTIONS = []
QUICK_RUNS = 12
QUICK_BUDGET_S = 30
CHUNK = 2
CHUNK_WALL_S = 4
HANG_S = 2
XPROC_RERUNS = 0
RERUN_EVERY = 0


def generate(seed, tier, index):
    return {"steps": [{"spin": index == 3}], "index": index}


def execute(scen):
    if scen["steps"][0]["spin"]:
        while True:
            pass
    return {"violations": [], "digest": str(scen["index"]), "probes": {}, "faults": {}, "steps": 1, "vtime": 0.0,
            "sig": str(scen["index"]), "nontrivial": True}
