"""Reference interpreter of the INDI client rules (C15/C16, and the metadata mirror of C01).

Works on structural views (tag, attrs, text, kids) - never on library objects - so it shares no
code with indi.client.  State: devices -> vectors -> elements, everything the wire says.
"""
from __future__ import annotations

import base64
import binascii

KINDS = ("Text", "Number", "Switch", "Light", "BLOB")


class MVector:
    __slots__ = ("kind", "name", "attrs", "state", "elements", "gen")

    def __init__(self, kind, name, attrs, state, gen):
        self.kind, self.name, self.attrs, self.state = kind, name, attrs, state
        self.elements = {}  # name -> MElement (ordered)
        self.gen = gen  # definition generation (a redefinition starts new event chains)


class MElement:
    __slots__ = ("name", "attrs", "value")

    def __init__(self, name, attrs, value):
        self.name, self.attrs, self.value = name, attrs, value


def decode_blob(text, attrs):
    """-> (bytes, format); empty text == absent text == empty payload; raises ValueError when undecodable."""
    if text is None:
        return (b"", attrs.get("format"))
    try:
        data = base64.b64decode(text)
    except (binascii.Error, ValueError) as e:
        raise ValueError(f"bad base64: {e}")
    return (data, attrs.get("format"))


class ClientModel:
    def __init__(self, blob_mode="decode"):
        self.devices = {}  # name -> {vector name -> MVector}
        self.gen = 0
        self.events = []  # derived events of the last apply(): tuples
        self.blob_mode = blob_mode

    def apply(self, view):
        """Apply one message view. Returns list of derived events:
        ('def', dev, vec), ('state', dev, vec, old, new), ('value', dev, vec, el, old, new), ('new_chain', dev, vec, el|None)"""
        tag, attrs, text, kids = view
        a = dict(attrs)
        ev = []
        dev = a.get("device")
        if tag.startswith("def") and tag.endswith("Vector"):
            kind = tag[3:-6]
            self.gen += 1
            vec = MVector(kind, a.get("name"), a, a.get("state"), self.gen)
            for ctag, cattrs, ctext, _ in kids:
                ca = dict(cattrs)
                val = ctext
                if kind == "BLOB":
                    val = None  # defBLOB carries no payload
                vec.elements[ca.get("name")] = MElement(ca.get("name"), ca, val)
            self.devices.setdefault(dev, {})[vec.name] = vec
            ev.append(("def", dev, vec.name))
            ev.append(("state", dev, vec.name, None, vec.state))
            for el in vec.elements.values():
                ev.append(("value", dev, vec.name, el.name, None, el.value))
        elif tag.startswith("set") and tag.endswith("Vector"):
            kind = tag[3:-6]
            vec = self.devices.get(dev, {}).get(a.get("name"))
            if vec is not None and vec.kind == kind:
                if a.get("state") != vec.state:
                    ev.append(("state", dev, vec.name, vec.state, a.get("state")))
                    vec.state = a.get("state")
                for ctag, cattrs, ctext, _ in kids:
                    ca = dict(cattrs)
                    el = vec.elements.get(ca.get("name"))
                    if el is None:
                        continue
                    if kind == "BLOB":
                        try:
                            new = decode_blob(ctext, ca)
                        except ValueError:
                            continue
                    else:
                        new = ctext
                    if new != el.value:
                        ev.append(("value", dev, vec.name, el.name, el.value, new))
                        el.value = new
        elif tag == "delProperty":
            if dev in self.devices:
                if a.get("name") is None:
                    del self.devices[dev]
                    ev.append(("deldev", dev))
                elif a.get("name") in self.devices[dev]:
                    del self.devices[dev][a.get("name")]
                    ev.append(("delvec", dev, a.get("name")))
        self.events = ev
        return ev

    # -- comparable snapshot ---------------------------------------------------------------
    def snapshot(self):
        out = {}
        for dname, vecs in self.devices.items():
            d = {}
            for vname, v in vecs.items():
                d[vname] = {"kind": v.kind, "state": v.state, "label": v.attrs.get("label"), "group": v.attrs.get("group"),
                            "elements": {e.name: {"value": e.value, "label": e.attrs.get("label")} for e in v.elements.values()}}
            out[dname] = d
        return out


def library_snapshot(client):
    """The same snapshot read from an indi.client.BaseClient through its public view."""
    out = {}
    for dname in list(client.list_devices()):
        dev = client.get_device(dname)
        d = {}
        for vname in dev.list_vectors():
            v = dev.get_vector(vname)
            kind = type(v).__name__.replace("Vector", "")
            els = {}
            for ename in v.list_elements():
                e = v.get_element(ename)
                val = e.value
                if kind == "BLOB" and val is not None and not isinstance(val, str):
                    val = (bytes(val.binary), val.format)
                els[ename] = {"value": val, "label": e.label}
            d[vname] = {"kind": kind, "state": v.state, "label": v.label, "group": v.group, "elements": els}
        out[dname] = d
    return out


def diff_snapshots(a, b, path=""):
    """First difference between two snapshots as a string, or None."""
    if type(a) != type(b):
        return f"{path}: {a!r} != {b!r}"
    if isinstance(a, dict):
        if list(a.keys()) != list(b.keys()):
            if set(a.keys()) != set(b.keys()):
                return f"{path}: keys {sorted(map(str, a.keys()))} != {sorted(map(str, b.keys()))}"
        for k in a:
            d = diff_snapshots(a[k], b[k], f"{path}/{k}")
            if d:
                return d
        return None
    if a != b:
        return f"{path}: {a!r} != {b!r}"
    return None
