"""Reference model of driver-side property semantics (INDI rules), independent of indi.device.

Used to *predict*: what a write must do to a switch vector (C06, C09, C12), which definitions a
getProperties must elicit and what they must contain (C07).
"""
from __future__ import annotations


def rule_ok(rule, values):
    """values: list of 'On'/'Off'. Does the configuration satisfy the rule's invariant?"""
    on = sum(1 for v in values if v == "On")
    if rule == "OneOfMany":
        return on == 1
    if rule == "AtMostOne":
        return on <= 1
    return True


def apply_switch(rule, state, name, value):
    """state: ordered dict name -> 'On'/'Off' (copied). Returns the new state after assigning value to name."""
    st = dict(state)
    if value == "On":
        if rule in ("OneOfMany", "AtMostOne"):
            for k in st:
                if k != name:
                    st[k] = "Off"
        st[name] = "On"
    else:
        if rule == "OneOfMany" and not any(v == "On" for k, v in st.items() if k != name):
            st[name] = "On"  # the last On switch of a OneOfMany vector cannot be turned off
        else:
            st[name] = "Off"
    return st


def apply_switch_write(rule, state, pairs):
    """A client write naming several switches: children are applied in message order."""
    st = dict(state)
    for name, value in pairs:
        if name in st:
            st = apply_switch(rule, st, name, value)
    return st


def expected_defs(truth, name=None):
    """From a truth snapshot (Stack.truth) -> list of expected definition summaries for one device:
    [{"tag", "name", "elements": [names in definition order]}] for getProperties(name)."""
    out = []
    for vname, tv in truth["vectors"].items():
        if name is not None and vname != name:
            continue
        if not tv["enabled"]:
            continue
        out.append({"tag": f"def{tv['kind']}Vector", "name": vname,
                    "elements": [n for n, e in tv["elements"].items() if e["enabled"]], "truth": tv})
    return out
