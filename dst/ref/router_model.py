"""Reference model of the INDI message router (C04, C05). Shares no code with indi.routing."""
from __future__ import annotations

CLIENT_KINDS = {"getProperties", "enableBLOB", "pingReply", "newTextVector", "newNumberVector", "newSwitchVector", "newBLOBVector"}
DEVICE_KINDS = {"getProperties", "delProperty", "pingRequest", "oneLight", "message",
                "defTextVector", "defNumberVector", "defSwitchVector", "defLightVector", "defBLOBVector",
                "setTextVector", "setNumberVector", "setSwitchVector", "setLightVector", "setBLOBVector"}
BLOB_PAYLOAD_KIND = "setBLOBVector"


class RouterModel:
    def __init__(self):
        self.devices = []  # [(dev_id, accepts_fn)]
        self.clients = []  # [client_id] in registration order
        self.policy = {}  # client_id -> {device_name: value}

    # -- membership --------------------------------------------------------------------
    def register_device(self, dev_id, accepts):
        self.devices.append((dev_id, accepts))

    def register_client(self, cid):
        self.clients.append(cid)
        self.policy[cid] = {}

    def unregister_client(self, cid):
        if cid in self.clients:
            self.clients.remove(cid)
        self.policy.pop(cid, None)

    def abstract_state(self):
        return (tuple(d for d, _ in self.devices), tuple(self.clients),
                tuple(sorted((c, tuple(sorted((str(k), v) for k, v in p.items()))) for c, p in self.policy.items())))

    # -- routing -----------------------------------------------------------------------
    def process(self, kind, device_name, sender, blob_value=None):
        """-> (device deliveries [dev_id...], client deliveries [client_id...]) in registration order."""
        to_dev, to_cli = [], []
        if kind in CLIENT_KINDS:
            if kind == "enableBLOB" and sender in self.policy:
                self.policy[sender][device_name] = blob_value
            for dev_id, accepts in self.devices:
                if dev_id != sender and accepts(device_name):
                    to_dev.append(dev_id)
        if kind in DEVICE_KINDS:
            for cid in self.clients:
                if cid == sender:
                    continue
                pol = self.policy.get(cid, {}).get(device_name, "Never")
                if kind == BLOB_PAYLOAD_KIND:
                    ok = pol in ("Also", "Only")
                else:
                    ok = pol in ("Never", "Also")
                if ok:
                    to_cli.append(cid)
        return to_dev, to_cli
