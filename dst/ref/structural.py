"""Canonical structural views, independent of the library's own equality.

view = (tag, ((k, v), ... sorted), text-or-None, (child views...))
Normalisation (C03): surrounding whitespace trimmed, empty text == absent text.
"""
from __future__ import annotations


def _norm_text(t):
    if t is None:
        return None
    t = str(t).strip()
    return t if t != "" else None


def view_of_spec(spec, top=True):
    """Expected view of a generated spec as the library should read it back."""
    attrs = tuple(sorted((k, str(v)) for k, v in spec["attrs"]))
    kids = tuple(view_of_spec(c, False) for c in (spec.get("children") or []))
    text = _norm_text(spec.get("text"))
    if top and kids:
        text = None  # a vector's own text is whitespace only
    return (spec["tag"], attrs, text, kids)


def _obj_attrs(obj):
    out = []
    for k, v in vars(obj).items():
        if k in ("children", "value") or v is None:
            continue
        out.append((k, str(v)))
    return tuple(sorted(out))


def view_of_message(msg):
    """View of a library message object, read through its public attributes only."""
    kids = []
    for c in getattr(msg, "children", None) or ():
        kids.append((c.tag_name(), _obj_attrs(c), _norm_text(getattr(c, "value", None)), ()))
    return (msg.tag_name(), _obj_attrs(msg), _norm_text(getattr(msg, "value", None)), tuple(kids))


def view_of_xml(elem, top=True):
    """View of an ElementTree element (used on bytes the library wrote to the wire)."""
    attrs = tuple(sorted((k, str(v)) for k, v in elem.attrib.items()))
    kids = tuple(view_of_xml(c, False) for c in elem)
    text = _norm_text(elem.text)
    if top and kids:
        text = None
    return (elem.tag, attrs, text, kids)


def short(view, n=160):
    s = repr(view)
    return s if len(s) <= n else s[: n - 3] + "..."
