"""Independent splitter of a character stream into top-level XML elements.

A small scanner (no ElementTree): tracks processing instructions, comments, CDATA sections, quoted attribute
values and element depth.  Returns complete top-level elements and the unconsumed tail.
"""
from __future__ import annotations

import xml.etree.ElementTree as ET


class SplitError(Exception):
    pass


def split_stream(text: str):
    """-> (elements: list[str], tail: str, junk: list[str])
    junk collects non-whitespace text found between top-level elements."""
    out = []
    junk = []
    i = 0
    n = len(text)
    depth = 0
    start = None
    last_end = 0
    while i < n:
        ch = text[i]
        if ch != "<":
            i += 1
            continue
        if text.startswith("<?", i):
            j = text.find("?>", i + 2)
            if j < 0:
                break
            if depth == 0:
                between = text[last_end:i]
                if between.strip():
                    junk.append(between)
                last_end = j + 2
            i = j + 2
            continue
        if text.startswith("<!--", i):
            j = text.find("-->", i + 4)
            if j < 0:
                break
            if depth == 0:
                last_end = j + 3
            i = j + 3
            continue
        if text.startswith("<![CDATA[", i):
            j = text.find("]]>", i + 9)
            if j < 0:
                break
            i = j + 3
            continue
        # a tag: find its end, honouring quotes
        j = i + 1
        q = None
        while j < n:
            c = text[j]
            if q:
                if c == q:
                    q = None
            elif c in "\"'":
                q = c
            elif c == ">":
                break
            j += 1
        if j >= n:
            break  # incomplete tag
        tag = text[i : j + 1]
        closing = tag.startswith("</")
        selfclosing = tag.endswith("/>")
        if depth == 0 and not closing:
            between = text[last_end:i]
            if between.strip():
                junk.append(between)
            start = i
        if closing:
            depth -= 1
            if depth < 0:
                raise SplitError(f"unbalanced closing tag at {i}: {tag[:40]}")
        elif not selfclosing:
            depth += 1
        if depth == 0 and start is not None:
            out.append(text[start : j + 1])
            last_end = j + 1
            start = None
        i = j + 1
    tail = text[last_end:] if start is None else text[start:]
    if start is None:
        # tail may be only whitespace / partial PI
        pass
    return out, tail, junk


def parse_elements(text: str):
    """-> (list of ET elements for each complete top-level element, tail, junk)"""
    els, tail, junk = split_stream(text)
    return [ET.fromstring(e) for e in els], tail, junk
