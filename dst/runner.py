"""Seeded search driver shared by every property check.

A property module provides:
    ID, LEVEL, TECHNIQUE, RULE (str), COMPONENTS (dict real/stub), ASSUMPTIONS (list)
    QUICK_RUNS (int), THOROUGH_BUDGET_S (default wall budget)
    generate(seed:int, tier:str, index:int) -> scenario (JSON-able dict)
    execute(scenario) -> dict(violations=[{clause, detail, facts}], digest, probes, faults,
                              steps, vtime, sig, nontrivial, sample(optional))
    simplify(scenario) -> iterable of smaller candidate scenarios   (optional)
    STEP_KEYS = ("steps",)   list-valued scenario keys the generic ddmin may shrink (optional)

Exit codes: 0 held / 1 violation (with VIOLATION line) / 2 harness trouble.
"""
from __future__ import annotations

import argparse
import copy
import faulthandler
import hashlib
import importlib
import json
import multiprocessing
import os
import subprocess
import sys
import time
import traceback
from concurrent.futures import ProcessPoolExecutor, TimeoutError as FutTimeout

ROOT = os.path.dirname(os.path.dirname(os.path.abspath(__file__)))
DEFAULT_SEED = 20261002
_PROGRESS = None  # shared array (pid, run index + 1) per worker slot: which run each worker is executing right now
_PROGRESS_LOCK = None
_SLOT = [None]


def _mark_progress(idx):
    """Record the run this worker is in (so that a run that never returns can be named after the worker was killed)."""
    if _PROGRESS is None:
        return
    if _SLOT[0] is None:
        me = os.getpid()
        with _PROGRESS_LOCK:
            for k in range(0, len(_PROGRESS), 2):
                if _PROGRESS[k] in (0, me):
                    _PROGRESS[k] = me
                    _SLOT[0] = k
                    break
        if _SLOT[0] is None:
            return
    _PROGRESS[_SLOT[0] + 1] = idx + 1


def derive_seed(base: int, prop: str, index: int) -> int:
    h = hashlib.sha256(f"{base}:{prop}:{index}".encode()).digest()
    return int.from_bytes(h[:8], "big")


def load_prop(pid: str):
    return importlib.import_module(f"dst.props.{pid.lower()}")


# ---------------------------------------------------------------------------------------
def run_one(mod, scenario):
    """Execute one scenario; harness exceptions are reported apart from violations."""
    try:
        res = mod.execute(scenario)
        res.setdefault("violations", [])
        return res
    except BaseException as e:  # noqa
        if isinstance(e, (KeyboardInterrupt, SystemExit)):
            raise
        if type(e).__name__ == "StepCapExceeded":
            # the simulated system never came to rest: events kept being produced without virtual time moving on (a spinning
            # read loop, a retry without back-off ...). Ordinary runs stay orders of magnitude below the cap.
            return {"violations": [{"clause": f"{mod.ID}.livelock", "detail": f"the simulated system did not reach quiescence within {e.args[0] if e.args else '?'} "
                                    "loop steps: something keeps producing events without virtual time advancing", "facts": {"livelock": True}}],
                    "digest": "livelock", "probes": {"step_cap_hit": 1}, "faults": {}, "steps": int(e.args[0]) if e.args else 0, "vtime": 0.0,
                    "sig": "livelock", "nontrivial": True}
        return {"harness_error": "".join(traceback.format_exception(type(e), e, e.__traceback__))[-4000:],
                "violations": [], "digest": "", "probes": {}, "faults": {}, "steps": 0, "vtime": 0.0,
                "sig": "", "nontrivial": False}


def _chunk_worker(args):
    pid, tier, base_seed, indices, rerun_every, wall_limit = args
    faulthandler.enable()
    faulthandler.dump_traceback_later(wall_limit, exit=True)
    mod = load_prop(pid)
    agg = {"runs": 0, "probes": {}, "faults": {}, "steps": 0, "vtime": 0.0, "sigs": set(), "nontrivial_sigs": set(),
           "violations": [], "harness_errors": [], "digests": {}, "reruns": 0, "mismatches": [], "samples": [],
           "extra": {}}
    for idx in indices:
        seed = derive_seed(base_seed, pid, idx)
        scen = mod.generate(seed, tier, idx)
        _mark_progress(idx)
        res = run_one(mod, scen)
        _mark_progress(-1)
        agg["runs"] += 1
        if "harness_error" in res:
            agg["harness_errors"].append((idx, res["harness_error"]))
            continue
        for k, v in res.get("probes", {}).items():
            agg["probes"][k] = agg["probes"].get(k, 0) + v
        for k, v in res.get("faults", {}).items():
            agg["faults"][k] = agg["faults"].get(k, 0) + v
        for k, v in res.get("extra", {}).items():
            if isinstance(v, (int, float)):
                if k.startswith("min_"):
                    agg["extra"][k] = v if k not in agg["extra"] else min(agg["extra"][k], v)
                elif k.startswith("max_"):
                    agg["extra"][k] = v if k not in agg["extra"] else max(agg["extra"][k], v)
                else:
                    agg["extra"][k] = agg["extra"].get(k, 0) + v
            elif isinstance(v, list):
                s = agg["extra"].setdefault(k, set())
                s.update(v)
        agg["steps"] += res.get("steps", 0)
        agg["vtime"] += res.get("vtime", 0.0)
        sig = res.get("sig", "")
        h = int.from_bytes(hashlib.sha256(sig.encode()).digest()[:8], "big")
        agg["sigs"].add(h)
        if res.get("nontrivial"):
            agg["nontrivial_sigs"].add(h)
        agg["digests"][idx] = res["digest"]
        if res["violations"]:
            if len(agg["violations"]) < 40:
                agg["violations"].append({"index": idx, "seed": seed, "scenario": scen,
                                          "violations": res["violations"], "digest": res["digest"]})
        if len(agg["samples"]) < 2 and res.get("nontrivial"):
            agg["samples"].append(res.get("sample") or scen)
        if rerun_every and idx % rerun_every == 0:
            res2 = run_one(mod, mod.generate(seed, tier, idx))
            agg["reruns"] += 1
            if res2.get("digest") != res["digest"]:
                agg["mismatches"].append(idx)
    faulthandler.cancel_dump_traceback_later()
    agg["sigs"] = list(agg["sigs"])
    agg["nontrivial_sigs"] = list(agg["nontrivial_sigs"])
    for k, v in list(agg["extra"].items()):
        if isinstance(v, set):
            agg["extra"][k] = sorted(v)
    return agg


# ---------------------------------------------------------------------------------------
def load_findings():
    p = os.path.join(ROOT, "known_findings.json")
    if not os.path.exists(p):
        return []
    with open(p) as f:
        return json.load(f).get("findings", [])


def match_finding(findings, pid, v):
    """A violation matches a *known* entry iff property and clause agree and every key of the
    entry's `match` equals the violation's facts.  `fixed` entries never suppress."""
    for f in findings:
        if f.get("status") != "known" or f.get("property") != pid:
            continue
        if f.get("clause") != v["clause"]:
            continue
        facts = v.get("facts") or {}
        if all(facts.get(k) == val for k, val in (f.get("match") or {}).items()):
            return f
    return None


# ---------------------------------------------------------------------------------------
def same_class(mod, scenario, clause, findings=None, pid=None):
    res = run_one(mod, scenario)
    if "harness_error" in res:
        return None
    for v in res["violations"]:
        if v["clause"] == clause:
            if findings is not None and match_finding(findings, pid, v):
                continue
            return res, v
    return None


def ddmin_list(items, test, deadline):
    """Classic ddmin over a list; test(list)->bool (True = still fails)."""
    n = 2
    while len(items) >= 2 and time.time() < deadline:
        size = max(1, len(items) // n)
        chunks = [items[i:i + size] for i in range(0, len(items), size)]
        reduced = False
        for i in range(len(chunks)):
            if time.time() >= deadline:
                break
            cand = [x for j, c in enumerate(chunks) if j != i for x in c]
            if cand and test(cand):
                items = cand
                n = max(n - 1, 2)
                reduced = True
                break
        if not reduced:
            if size == 1:
                break
            n = min(len(items), n * 2)
    # final single-removal pass
    i = 0
    while i < len(items) and len(items) > 1 and time.time() < deadline:
        cand = items[:i] + items[i + 1:]
        if test(cand):
            items = cand
        else:
            i += 1
    return items


def minimise(mod, pid, scenario, clause, findings, budget_s=60.0):
    deadline = time.time() + budget_s
    best = copy.deepcopy(scenario)
    tests = [0]

    def still(sc):
        tests[0] += 1
        return same_class(mod, sc, clause, findings, pid) is not None

    for key in getattr(mod, "STEP_KEYS", ("steps",)):
        if isinstance(best.get(key), list) and len(best[key]) > 1:
            def t(items, key=key):
                sc = copy.deepcopy(best)
                sc[key] = items
                fix = getattr(mod, "repair", None)
                if fix:
                    sc = fix(sc)
                    if sc is None:
                        return False
                return still(sc)
            items = ddmin_list(list(best[key]), t, deadline)
            sc = copy.deepcopy(best)
            sc[key] = items
            fix = getattr(mod, "repair", None)
            if fix:
                sc = fix(sc) or sc
            if still(sc):
                best = sc
    simp = getattr(mod, "simplify", None)
    if simp:
        progress = True
        while progress and time.time() < deadline:
            progress = False
            for cand in simp(best):
                if time.time() >= deadline:
                    break
                if still(cand):
                    best = cand
                    progress = True
                    break
    return best, tests[0]


# ---------------------------------------------------------------------------------------
def write_replay(pid, seed, index, tier, scenario, clause, detail, digest, facts, original_len=None):
    d = os.path.join(ROOT, "replays")
    os.makedirs(d, exist_ok=True)
    path = os.path.join(d, f"{pid}-{seed}.json")
    with open(path, "w") as f:
        json.dump({"property": pid, "clause": clause, "detail": detail, "facts": facts, "seed": seed, "index": index,
                   "tier": tier, "digest": digest, "scenario": scenario, "original_steps": original_len},
                  f, indent=1, sort_keys=True, default=repr)
    return path


def run_scenario_bounded(pid, scenario_path, limit_s):
    """Execute one recorded scenario in a fresh process with a wall-clock bound. -> 'hang' | 'done' | 'error:<text>'"""
    env = dict(os.environ)
    env["DST_REPLAY_INNER"] = "1"
    try:
        p = subprocess.run([sys.executable, os.path.join(ROOT, "dst", "main.py"), pid, "--replay", scenario_path, "--quiet"],
                           capture_output=True, text=True, env=env, timeout=limit_s)
    except subprocess.TimeoutExpired:
        return "hang"
    return "done" if p.returncode in (0, 1) else "error:" + (p.stdout + p.stderr)[-1500:]


def replay_file(mod, pid, path, quiet=False):
    with open(path) as f:
        rep = json.load(f)
    if rep.get("clause", "").endswith(".noreturn") and not os.environ.get("DST_REPLAY_INNER"):
        limit = float(rep.get("facts", {}).get("limit_s", getattr(mod, "HANG_S", 120)))
        out = run_scenario_bounded(pid, path, limit)
        if out == "hang":
            if not quiet:
                print(f"replay reproduces clause {rep['clause']}: the scenario does not finish within {limit:.0f} s of wall-clock time")
            print(f"VIOLATION property={pid} replay={path}")
            return 1
        print(f"replay of {path}: clause {rep['clause']} not reproduced ({out[:200]})")
        return 0 if out == "done" else 2
    res = run_one(mod, rep["scenario"])
    if "harness_error" in res:
        print("HARNESS-ERROR during replay:\n" + res["harness_error"])
        return 2
    hit = [v for v in res["violations"] if v["clause"] == rep["clause"]]
    findings = load_findings()
    listed = [v for v in hit if match_finding(findings, pid, v)]
    hit = [v for v in hit if not match_finding(findings, pid, v)]
    if listed and not hit:
        f = match_finding(findings, pid, listed[0])
        print(f"KNOWN-FINDING: property={pid} {f['id']} {f['description']} (what this replay shows is that listed finding)")
        return 0
    if hit:
        same = (res["digest"] == rep.get("digest"))
        if not quiet:
            print(f"replay reproduces clause {rep['clause']}: {hit[0]['detail'][:300]}")
            print(f"digest {'identical' if same else 'DIFFERS'}: {res['digest']}")
        print(f"VIOLATION property={pid} replay={path}")
        return 1
    print(f"replay of {path}: clause {rep['clause']} not reproduced (violations now: "
          f"{[v['clause'] for v in res['violations']]})")
    return 0


def fresh_process_replay(pid, path):
    env = dict(os.environ)
    env["PYTHONHASHSEED"] = "7"
    p = subprocess.run([sys.executable, os.path.join(ROOT, "dst", "main.py"), pid, "--replay", path, "--quiet"],
                       capture_output=True, text=True, env=env, timeout=600)
    return p.returncode, p.stdout + p.stderr


def fresh_process_digests(pid, tier, base_seed, indices):
    env = dict(os.environ)
    env["PYTHONHASHSEED"] = "12345"
    p = subprocess.run([sys.executable, os.path.join(ROOT, "dst", "main.py"), pid, "--tier", tier, "--seed", str(base_seed),
                        "--digests", ",".join(map(str, indices))], capture_output=True, text=True, env=env, timeout=900)
    if p.returncode != 0:
        raise RuntimeError("digest subprocess failed: " + p.stdout[-2000:] + p.stderr[-2000:])
    line = [l for l in p.stdout.splitlines() if l.startswith("DIGESTS ")][-1]
    return {int(k): v for k, v in json.loads(line[8:]).items()}


# ---------------------------------------------------------------------------------------
def main_check(pid, argv=None):
    ap = argparse.ArgumentParser(prog=f"check {pid}")
    ap.add_argument("--tier", default=os.environ.get("VERIF_TIER", "quick"), choices=["quick", "thorough"])
    ap.add_argument("--seed", type=int, default=int(os.environ.get("VERIF_SEED", DEFAULT_SEED)))
    ap.add_argument("--replay")
    ap.add_argument("--quiet", action="store_true")
    ap.add_argument("--jobs", type=int, default=int(os.environ.get("VERIF_JOBS", os.cpu_count() or 4)))
    ap.add_argument("--budget", type=float, default=None)
    ap.add_argument("--runs", type=int, default=None)
    ap.add_argument("--digests")
    ap.add_argument("--no-evidence", action="store_true")
    ap.add_argument("--no-minimise", action="store_true")
    args = ap.parse_args(argv)
    mod = load_prop(pid)

    if args.replay:
        return replay_file(mod, pid, args.replay, args.quiet)

    if args.digests:
        out = {}
        for idx in [int(x) for x in args.digests.split(",") if x]:
            res = run_one(mod, mod.generate(derive_seed(args.seed, pid, idx), args.tier, idx))
            out[idx] = res.get("digest", "ERR")
        print("DIGESTS " + json.dumps(out))
        return 0

    t0 = time.time()
    tier = args.tier
    quick_runs = args.runs or getattr(mod, "QUICK_RUNS", 2000)
    budget = args.budget if args.budget is not None else (
        float(os.environ.get("VERIF_BUDGET_S", getattr(mod, "THOROUGH_BUDGET_S", 360))) if tier == "thorough"
        else float(getattr(mod, "QUICK_BUDGET_S", 90)))
    chunk = getattr(mod, "CHUNK", 50)
    if tier == "thorough":
        chunk = getattr(mod, "THOROUGH_CHUNK", chunk)
    rerun_every = getattr(mod, "RERUN_EVERY", 16)
    chunk_wall = int(getattr(mod, "CHUNK_WALL_S", 300))
    total = {"runs": 0, "probes": {}, "faults": {}, "steps": 0, "vtime": 0.0, "sigs": set(), "nontrivial_sigs": set(),
             "violations": [], "harness_errors": [], "digests": {}, "reruns": 0, "mismatches": [], "samples": [],
             "extra": {}}
    ctx = multiprocessing.get_context("fork")
    global _PROGRESS, _PROGRESS_LOCK
    _PROGRESS = ctx.Array("q", 2 * 128, lock=False)
    _PROGRESS_LOCK = ctx.Lock()
    findings_early = load_findings()
    next_index = 0
    max_runs = quick_runs if tier == "quick" else (args.runs or 10**9)
    harness_fail = None
    with ProcessPoolExecutor(max_workers=args.jobs, mp_context=ctx) as ex:
        pending = {}
        def submit():
            nonlocal next_index
            if next_index >= max_runs:
                return False
            idxs = list(range(next_index, min(next_index + chunk, max_runs)))
            next_index = idxs[-1] + 1
            fut = ex.submit(_chunk_worker, (pid, tier, args.seed, idxs, rerun_every, chunk_wall))
            pending[fut] = (idxs, time.time())
            return True
        for _ in range(args.jobs * 2):
            if not submit():
                break
        while pending:
            done = [f for f in pending if f.done()]
            if not done:
                time.sleep(0.05)
                now = time.time()
                for f, (idxs, ts) in list(pending.items()):
                    if now - ts > chunk_wall + 30:
                        harness_fail = f"chunk {idxs[0]}..{idxs[-1]} exceeded wall limit"
                        pending.pop(f)
                if harness_fail:
                    break
                continue
            for f in done:
                idxs, ts = pending.pop(f)
                try:
                    agg = f.result()
                except BaseException as e:  # worker died (faulthandler exit, OOM, ...)
                    harness_fail = f"worker for chunk {idxs[0]}..{idxs[-1]} died: {e!r}"
                    continue
                total["runs"] += agg["runs"]
                total["steps"] += agg["steps"]
                total["vtime"] += agg["vtime"]
                total["reruns"] += agg["reruns"]
                total["mismatches"] += agg["mismatches"]
                total["sigs"].update(agg["sigs"])
                total["nontrivial_sigs"].update(agg["nontrivial_sigs"])
                for rec in agg["violations"]:
                    unk = any(not match_finding(findings_early, pid, v) for v in rec["violations"])
                    if unk or len(total["violations"]) < 400:
                        total["violations"].append(rec)
                total["harness_errors"] += agg["harness_errors"]
                if len(total["digests"]) < 64:
                    total["digests"].update(agg["digests"])
                for k, v in agg["probes"].items():
                    total["probes"][k] = total["probes"].get(k, 0) + v
                for k, v in agg["faults"].items():
                    total["faults"][k] = total["faults"].get(k, 0) + v
                for k, v in agg["extra"].items():
                    if isinstance(v, list):
                        total["extra"].setdefault(k, set()).update(v)
                    elif k.startswith("min_"):
                        total["extra"][k] = v if k not in total["extra"] else min(total["extra"][k], v)
                    elif k.startswith("max_"):
                        total["extra"][k] = v if k not in total["extra"] else max(total["extra"][k], v)
                    else:
                        total["extra"][k] = total["extra"].get(k, 0) + v
                if len(total["samples"]) < 3:
                    total["samples"] += agg["samples"][: 3 - len(total["samples"])]
                n_unknown = sum(1 for rec in total["violations"] for v in rec["violations"]
                                if not match_finding(findings_early, pid, v))
                stop = (time.time() - t0 > budget) or n_unknown >= 40 or harness_fail
                if not stop:
                    submit()
            if harness_fail and not pending:
                break
        if harness_fail:
            for f in pending:
                f.cancel()
            for p in list(getattr(ex, "_processes", {}).values()):
                try:
                    p.kill()
                except Exception:
                    pass

    findings = load_findings()
    wall = time.time() - t0
    exit_code = 0
    out_lines = []

    hang_reports = []
    if harness_fail:
        # a worker was killed at its wall-clock limit (or died): was one of the runs in flight a run that never returns?
        # Screen the runs the workers were executing, each in a fresh process under a wall-clock bound, twice.
        limit = float(getattr(mod, "HANG_S", 120))
        cands = sorted({int(_PROGRESS[k + 1]) - 1 for k in range(0, len(_PROGRESS), 2) if _PROGRESS[k + 1] > 0})
        for idx in cands[:32]:
            seed_i = derive_seed(args.seed, pid, idx)
            scen = mod.generate(seed_i, tier, idx)
            path = write_replay(pid, seed_i, idx, tier, scen, f"{pid}.noreturn",
                                f"run {idx} does not finish within {limit:.0f} s of wall-clock time (a worker executing it was killed at its limit)",
                                "", {"limit_s": limit, "hang": True}, None)
            if run_scenario_bounded(pid, path, limit) == "hang" and run_scenario_bounded(pid, path, limit) == "hang":
                hang_reports.append((idx, seed_i, path))
                break
            os.remove(path)
        if hang_reports:
            idx, seed_i, path = hang_reports[0]
            print(f"violation clause={pid}.noreturn run_index={idx} seed={seed_i} (unminimised: every probe of a non-terminating scenario costs the full bound)")
            print(f"  detail: the scenario does not finish within {limit:.0f} s of wall-clock time in a fresh process (twice); ordinary runs of this check take milliseconds to seconds")
            print(f"VIOLATION property={pid} replay={path}")
            exit_code = 1
        else:
            print("HARNESS-ERROR " + harness_fail)
            exit_code = 2
    if total["harness_errors"]:
        idx, tb = total["harness_errors"][0]
        print(f"HARNESS-ERROR in run index {idx} ({len(total['harness_errors'])} runs affected):\n{tb}")
        exit_code = 2
    mismatch_only = False
    if total["mismatches"]:
        print(f"HARNESS-ERROR determinism mismatch on run indices {total['mismatches'][:10]}"
              " (process-global state leaking between runs? a violation that still reproduces in a fresh process is reported below)")
        if exit_code == 0:
            mismatch_only = True
        exit_code = 2

    # cross-process determinism (fresh interpreter, other PYTHONHASHSEED)
    xproc = 0
    xproc_bad = False
    if exit_code == 0 and total["digests"] and getattr(mod, "XPROC_RERUNS", 6):
        idxs = sorted(total["digests"])[: getattr(mod, "XPROC_RERUNS", 6)]
        try:
            other = fresh_process_digests(pid, tier, args.seed, idxs)
            xproc = len(idxs)
            bad = [i for i in idxs if other.get(i) != total["digests"][i]]
            if bad:
                print(f"HARNESS-ERROR cross-process determinism mismatch on run indices {bad}"
                      " (a violation that still reproduces in a fresh process is reported below)")
                xproc_bad = True
                mismatch_only = True
                exit_code = 2
        except Exception as e:
            print(f"HARNESS-ERROR cross-process determinism run failed: {e}")
            exit_code = 2

    # classify violations
    known_hits = {}
    unknown = []
    for rec in total["violations"]:
        for v in rec["violations"]:
            f = match_finding(findings, pid, v)
            if f:
                known_hits.setdefault(f["id"], [f, 0])[1] += 1
            else:
                unknown.append((rec, v))
    for fid, (f, n) in sorted(known_hits.items()):
        print(f"KNOWN-FINDING: property={pid} {f['id']} {f['description']} (seen in {n} violation records this run)")
    # known findings are printed even when not hit this run, as documentation of what is suppressed
    for f in findings:
        if f.get("status") == "known" and f.get("property") == pid and f["id"] not in known_hits:
            print(f"KNOWN-FINDING: property={pid} {f['id']} {f['description']} (not exercised this run)")

    if unknown:
        hist = {}
        for rec, v in unknown:
            hist[v["clause"]] = hist.get(v["clause"], 0) + 1
        print("violation clauses (not matching a known finding): " + json.dumps(hist, sort_keys=True))
    n_viol = len(hang_reports)
    if unknown and mismatch_only:
        exit_code = 0  # let the fresh-process replay decide; restored to 2 below if nothing reproduces
    if unknown and exit_code == 0:
        # one report per distinct clause, first occurrence (lowest index) first
        unknown.sort(key=lambda rv: (rv[0]["index"]))
        seen = set()
        leaky = bool(total["mismatches"]) or xproc_bad
        if leaky:
            # process-global state of the code under test leaks between runs of one process: what a run showed may depend on
            # its predecessors. Screen the recorded scenarios in fresh processes and report the first that reproduces there.
            by_clause = {}
            for rec, v in unknown:
                by_clause.setdefault(v["clause"], []).append((rec, v))
            for clause, lst in by_clause.items():
                ok = False
                for rec, v in lst[:8]:
                    path = write_replay(pid, rec["seed"], rec["index"], tier, rec["scenario"], clause, v["detail"], rec.get("digest", ""), v.get("facts"), None)
                    rc, txt = fresh_process_replay(pid, path)
                    if rc == 1:
                        n_viol += 1
                        print(f"violation clause={clause} run_index={rec['index']} seed={rec['seed']} (unminimised: in-process minimisation is "
                              f"unreliable while state leaks between runs)")
                        print(f"  detail: {v['detail'][:600]}")
                        print(f"VIOLATION property={pid} replay={path}")
                        exit_code = 1
                        ok = True
                        break
                if ok and n_viol >= 3:
                    break
            unknown = []
            if exit_code == 0:
                exit_code = 2
        for rec, v in unknown:
            if v["clause"] in seen:
                continue
            seen.add(v["clause"])
            n_viol += 1
            scen = rec["scenario"]
            orig_len = sum(len(scen.get(k, [])) for k in getattr(mod, "STEP_KEYS", ("steps",)) if isinstance(scen.get(k), list))
            if not args.no_minimise:
                scen_min, ntests = minimise(mod, pid, scen, v["clause"], findings,
                                            budget_s=float(os.environ.get("VERIF_MIN_BUDGET_S", 60)))
            else:
                scen_min, ntests = scen, 0
            got = same_class(mod, scen_min, v["clause"], findings, pid)
            if got is None:
                scen_min = scen
                got = same_class(mod, scen_min, v["clause"], findings, pid)
            if got is None:
                print(f"HARNESS-ERROR violation {v['clause']} of run {rec['index']} did not reproduce in-process")
                exit_code = 2
                continue
            res_min, v_min = got
            path = write_replay(pid, rec["seed"], rec["index"], tier, scen_min, v["clause"], v_min["detail"],
                                res_min["digest"], v_min.get("facts"), orig_len)
            rc, txt = fresh_process_replay(pid, path)
            if rc != 1:
                # the minimised scenario may depend on state leaked between executions in this process (process-global
                # state in the code under test): fall back to the original scenario of that run, replayed in a fresh process
                res0 = run_one(mod, scen)
                v0 = [x for x in res0.get("violations", []) if x["clause"] == v["clause"]]
                path0 = write_replay(pid, rec["seed"], rec["index"], tier, scen, v["clause"], (v0[0] if v0 else v)["detail"],
                                     res0.get("digest", ""), (v0[0] if v0 else v).get("facts"), orig_len)
                rc0, txt0 = fresh_process_replay(pid, path0)
                if rc0 == 1:
                    print(f"note: the minimised scenario did not reproduce in a fresh process; reporting the unminimised scenario of run {rec['index']}")
                    scen_min, v_min, path = scen, (v0[0] if v0 else v), path0
                else:
                    print(f"HARNESS-ERROR replay {path} did not reproduce in a fresh process (rc={rc}):\n{txt[-1500:]}")
                    exit_code = 2
                    continue
            new_len = sum(len(scen_min.get(k, [])) for k in getattr(mod, "STEP_KEYS", ("steps",)) if isinstance(scen_min.get(k), list))
            print(f"violation clause={v['clause']} run_index={rec['index']} seed={rec['seed']} "
                  f"minimised {orig_len}->{new_len} steps in {ntests} executions")
            print(f"  detail: {v_min['detail'][:600]}")
            print(f"VIOLATION property={pid} replay={path}")
            if exit_code == 0:
                exit_code = 1
            if n_viol >= 3:
                break

    if mismatch_only and exit_code == 0:
        exit_code = 2
    # evidence
    if not args.no_evidence:
        rph = total["runs"] / wall * 3600 if wall > 0 else 0
        cov = {
            "evaluations": total["runs"],
            "distinct_nontrivial": len(total["nontrivial_sigs"]),
            "rule": mod.RULE,
            "samples": total["samples"][:3] or [mod.generate(derive_seed(args.seed, pid, 0), tier, 0)],
            "distinct_schedule_signatures": len(total["sigs"]),
            "runs_per_hour": round(rph),
            "seeds": f"sha256({args.seed}:{pid}:i) for i in 0..{max(0, next_index - 1)}",
            "simulated_seconds": round(total["vtime"], 3),
            "loop_steps": total["steps"],
            "faults_fired": dict(sorted(total["faults"].items())),
            "probes": dict(sorted(total["probes"].items())),
            "determinism_reruns_in_process": total["reruns"],
            "determinism_reruns_fresh_interpreter": xproc,
            "determinism_mismatches": len(total["mismatches"]),
            "components": mod.COMPONENTS,
            "known_findings_hit": {k: v[1] for k, v in known_hits.items()},
            "workers": args.jobs,
        }
        for k, v in total["extra"].items():
            cov[k] = (len(v) if isinstance(v, set) else v)
        ev = {"property_id": pid, "tier": tier, "seed": args.seed, "level": mod.LEVEL, "coverage": cov,
              "assumptions": mod.ASSUMPTIONS, "wall_s": round(wall, 2), "violations": n_viol}
        os.makedirs(os.path.join(ROOT, "evidence"), exist_ok=True)
        with open(os.path.join(ROOT, "evidence", f"{pid}.json"), "w") as f:
            json.dump(ev, f, indent=1, sort_keys=True, default=repr)

    print(f"{pid} {tier}: runs={total['runs']} wall={wall:.1f}s steps={total['steps']} "
          f"sigs={len(total['sigs'])} nontrivial={len(total['nontrivial_sigs'])} faults={sum(total['faults'].values())} "
          f"violation_records={len(total['violations'])} exit={exit_code}")
    return exit_code
