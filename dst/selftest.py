"""./check selftest - proves the simulator is deterministic before any property is believed.

For every claimed property a sample of seeds is executed twice in-process and once more in a
fresh interpreter with a different PYTHONHASHSEED; all digests must agree.
"""
import json
import os
import sys
import time

from . import runner


def hang_fixture():
    """The runner must turn a run that never returns into a VIOLATION naming that run, with a replay file that reproduces."""
    import contextlib
    import io
    import re
    buf = io.StringIO()
    with contextlib.redirect_stdout(buf):
        rc = runner.main_check("ZZ_HANG", ["--no-evidence", "--jobs", "3", "--tier", "quick"])
    out = buf.getvalue()
    m = re.search(r"VIOLATION property=ZZ_HANG replay=(\S+)", out)
    ok = rc == 1 and "clause=ZZ_HANG.noreturn run_index=3 " in out and m is not None
    if ok:
        buf2 = io.StringIO()
        with contextlib.redirect_stdout(buf2):
            rc2 = runner.main_check("ZZ_HANG", ["--replay", m.group(1)])
        ok = rc2 == 1
        try:
            os.remove(m.group(1))
        except OSError:
            pass
    print("selftest hang fixture: a run that never returns is named and its replay reproduces" if ok
          else f"selftest hang fixture: FAILED (rc={rc})\n{out[-1500:]}")
    return 0 if ok else 1


def main(argv):
    with open(os.path.join(runner.ROOT, "MANIFEST.json")) as f:
        ids = [c["property_id"] for c in json.load(f)["checks"]]
    n = int(os.environ.get("VERIF_SELFTEST_N", "24"))
    base = int(os.environ.get("VERIF_SEED", runner.DEFAULT_SEED))
    bad = 0
    t0 = time.time()
    for pid in ids:
        mod = runner.load_prop(pid)
        idxs = list(range(n))
        first = {}
        for i in idxs:
            sc = mod.generate(runner.derive_seed(base, pid, i), "quick", i)
            for tier in ("quick", "thorough"):
                # a scenario is exactly what its replay file holds: it survives the trip through JSON unchanged
                sct = sc if tier == "quick" else mod.generate(runner.derive_seed(base, pid, i), tier, i)
                if json.loads(json.dumps(sct)) != sct:
                    print(f"selftest {pid}: the {tier} scenario of index {i} does not survive JSON (a replay file would hold something else)")
                    bad += 1
            r1 = runner.run_one(mod, sc)
            r2 = runner.run_one(mod, mod.generate(runner.derive_seed(base, pid, i), "quick", i))
            if "harness_error" in r1 or "harness_error" in r2:
                print(f"selftest {pid}: harness error on index {i}:\n{r1.get('harness_error') or r2.get('harness_error')}")
                bad += 1
                continue
            if r1["digest"] != r2["digest"]:
                print(f"selftest {pid}: in-process digest mismatch on index {i}")
                bad += 1
            first[i] = r1["digest"]
        other = runner.fresh_process_digests(pid, "quick", base, idxs)
        diff = [i for i in idxs if i in first and other.get(i) != first[i]]
        if diff:
            print(f"selftest {pid}: fresh-interpreter digest mismatch on indices {diff}")
            bad += len(diff)
        print(f"selftest {pid}: {len(idxs)} seeds x (2 in-process + 1 fresh interpreter) digests agree" if not diff else f"selftest {pid}: FAILED")
    bad += hang_fixture()
    print(f"selftest done in {time.time()-t0:.1f}s, problems={bad}")
    return 0 if bad == 0 else 2
