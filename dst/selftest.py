"""./check selftest - proves the simulator is deterministic before any property is believed.

For every claimed property a sample of seeds is executed twice in-process and once more in a
fresh interpreter with a different PYTHONHASHSEED; all digests must agree.
"""
import json
import os
import sys
import time

from . import runner


def main(argv):
    with open(os.path.join(runner.ROOT, "MANIFEST.json")) as f:
        ids = [c["property_id"] for c in json.load(f)["checks"]]
    n = int(os.environ.get("VERIF_SELFTEST_N", "24"))
    base = int(os.environ.get("VERIF_SEED", runner.DEFAULT_SEED))
    bad = 0
    t0 = time.time()
    for pid in ids:
        mod = runner.load_prop(pid)
        idxs = list(range(n))
        first = {}
        for i in idxs:
            sc = mod.generate(runner.derive_seed(base, pid, i), "quick", i)
            r1 = runner.run_one(mod, sc)
            r2 = runner.run_one(mod, mod.generate(runner.derive_seed(base, pid, i), "quick", i))
            if "harness_error" in r1 or "harness_error" in r2:
                print(f"selftest {pid}: harness error on index {i}:\n{r1.get('harness_error') or r2.get('harness_error')}")
                bad += 1
                continue
            if r1["digest"] != r2["digest"]:
                print(f"selftest {pid}: in-process digest mismatch on index {i}")
                bad += 1
            first[i] = r1["digest"]
        other = runner.fresh_process_digests(pid, "quick", base, idxs)
        diff = [i for i in idxs if i in first and other.get(i) != first[i]]
        if diff:
            print(f"selftest {pid}: fresh-interpreter digest mismatch on indices {diff}")
            bad += len(diff)
        print(f"selftest {pid}: {len(idxs)} seeds x (2 in-process + 1 fresh interpreter) digests agree" if not diff else f"selftest {pid}: FAILED")
    print(f"selftest done in {time.time()-t0:.1f}s, problems={bad}")
    return 0 if bad == 0 else 2
