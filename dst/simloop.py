"""SimLoop - a virtual-time asyncio event loop.

One process, one thread, no selector, no sockets.  Everything the code under test can
observe about time, scheduling, the network and the thread pool is decided here from
seeded PRNGs, so one scenario is one exactly repeatable execution.

FIFO order of the ready queue is kept on purpose (a documented asyncio guarantee the code
under test relies on); what is explored is everything asyncio does *not* promise.
"""
from __future__ import annotations

import asyncio
import heapq
import itertools
import random
import threading
from asyncio import base_events, events, tasks


class StepCapExceeded(BaseException):
    """The per-run loop step cap was hit (harness outcome unless the property is liveness)."""


class SimTimerHandle(events.TimerHandle):
    __slots__ = ("_tb",)

    def __lt__(self, other):
        if self._when != other._when:
            return self._when < other._when
        return self._tb < other._tb

    def __le__(self, other):
        return self == other or self < other

    def __gt__(self, other):
        return other < self

    def __ge__(self, other):
        return self == other or other < self


class SimLoop(base_events.BaseEventLoop):
    def __init__(self, seed: int = 0, timer_tie_shuffle: bool = False):
        super().__init__()
        self._clock = 0.0
        self._clock_resolution = 1e-9
        self._seq = itertools.count()
        self._tie_rng = random.Random(f"tie:{seed}")
        self.timer_tie_shuffle = timer_tie_shuffle
        self.steps = 0  # handles run
        self.iterations = 0
        self.max_steps = 2_000_000
        self.all_tasks = []  # every task ever created on this loop, in creation order
        self.errors = []  # (vtime, description) of contexts passed to the exception handler
        self.net = None  # SimNet, attached by env
        self.pool = None  # SimPool, attached by env
        self.set_task_factory(self._sim_task_factory)
        self.set_exception_handler(self._on_exception)
        self._task_seq = itertools.count()

    # -- time ---------------------------------------------------------------------
    def time(self):
        return self._clock

    # -- plumbing BaseEventLoop expects -------------------------------------------
    def _process_events(self, event_list):
        pass

    def _write_to_self(self):
        pass

    def _sim_task_factory(self, loop, coro, **kw):
        kw.pop("name", None)
        t = tasks.Task(coro, loop=loop, name=f"simtask-{next(self._task_seq)}", **kw)
        self.all_tasks.append(t)
        return t

    def _on_exception(self, loop, context):
        exc = context.get("exception")
        self.errors.append((self._clock, context.get("message", ""), repr(exc)))

    # -- timers ---------------------------------------------------------------------
    def call_at(self, when, callback, *args, context=None):
        self._check_closed()
        timer = SimTimerHandle(when, callback, args, self, context)
        tb = self._tie_rng.random() if self.timer_tie_shuffle else 0.0
        timer._tb = (tb, next(self._seq))
        heapq.heappush(self._scheduled, timer)
        timer._scheduled = True
        return timer

    def call_later(self, delay, callback, *args, context=None):
        return self.call_at(self._clock + max(0.0, delay), callback, *args, context=context)

    # -- executor / network (delegated) -----------------------------------------------
    def run_in_executor(self, executor, func, *args):
        self._check_closed()
        return self.pool.submit(func, *args)

    async def create_server(self, protocol_factory, host=None, port=None, **kw):
        return self.net.listen(protocol_factory, host, port)

    async def create_connection(self, protocol_factory, host=None, port=None, **kw):
        return await self.net.connect(protocol_factory, host, port)

    # -- running ----------------------------------------------------------------------
    def _pop_cancelled(self):
        sched = self._scheduled
        while sched and sched[0]._cancelled:
            h = heapq.heappop(sched)
            h._scheduled = False
            self._timer_cancelled_count = max(0, self._timer_cancelled_count - 1)

    def _sim_once(self):
        """One loop iteration. Returns False when there is nothing left to do."""
        self._pop_cancelled()
        if not self._ready:
            if not self._scheduled:
                return False
            nxt = self._scheduled[0]._when
            if nxt > self._clock:
                self._clock = nxt
        end_time = self._clock + self._clock_resolution
        while self._scheduled:
            handle = self._scheduled[0]
            if handle._when >= end_time:
                break
            handle = heapq.heappop(self._scheduled)
            handle._scheduled = False
            if not handle._cancelled:
                self._ready.append(handle)
            else:
                self._timer_cancelled_count = max(0, self._timer_cancelled_count - 1)
        self.iterations += 1
        ntodo = len(self._ready)
        for _ in range(ntodo):
            handle = self._ready.popleft()
            if handle._cancelled:
                continue
            self.steps += 1
            handle._run()
        handle = None
        if self.steps > self.max_steps:
            raise StepCapExceeded(self.steps)
        return True

    def _enter(self):
        self._check_closed()
        if self.is_running():
            raise RuntimeError("SimLoop already running")
        self._thread_id = threading.get_ident()
        events._set_running_loop(self)

    def _leave(self):
        self._thread_id = None
        events._set_running_loop(None)

    def drain(self, until=None, while_=None):
        """Run until quiescent (no ready handle, no live timer).

        until: virtual time bound - stop (and set the clock to it) once nothing is ready and
               the next timer lies beyond it.
        while_: optional predicate evaluated between iterations; stop when it turns false.
        Returns 'quiescent' | 'time' | 'pred'.
        """
        self._enter()
        try:
            while True:
                if while_ is not None and not while_():
                    return "pred"
                self._pop_cancelled()
                if not self._ready:
                    if not self._scheduled:
                        if until is not None and until > self._clock:
                            self._clock = until
                        return "quiescent"
                    if until is not None and self._scheduled[0]._when > until:
                        if until > self._clock:
                            self._clock = until
                        return "time"
                self._sim_once()
        finally:
            self._leave()

    def step_iterations(self, n):
        """Run at most n loop iterations (jumping the clock when nothing is ready). Returns iterations run."""
        self._enter()
        try:
            k = 0
            while k < n:
                if not self._sim_once():
                    break
                k += 1
            return k
        finally:
            self._leave()

    def run_forever(self):  # used by run_until_complete
        self._enter()
        try:
            while not self._stopping:
                if not self._sim_once():
                    break
        finally:
            self._stopping = False
            self._leave()

    def run_until_complete(self, future):
        self._check_closed()
        future = tasks.ensure_future(future, loop=self)
        done = []
        future.add_done_callback(lambda f: (done.append(1), self.stop()))
        self.run_forever()
        if not future.done():
            raise RuntimeError("SimLoop: quiescent before future completed")
        return future.result()

    def do(self, fn, *args):
        """Run fn(*args) inside the loop (so get_running_loop() works) and return its value.
        Does not drain; the callback runs as one loop step."""
        box = []

        def call():
            try:
                box.append((True, fn(*args)))
            except BaseException as e:  # noqa
                box.append((False, e))

        self._enter()
        try:
            self.steps += 1
            call()
        finally:
            self._leave()
        ok, val = box[0]
        if ok:
            return val
        raise val

    # -- hygiene ----------------------------------------------------------------------
    def shutdown(self):
        """Cancel every task, drain, close. Never raises on leftover garbage."""
        try:
            for _ in range(5):
                pending = [t for t in self.all_tasks if not t.done()]
                if not pending:
                    break
                for t in pending:
                    t.cancel()
                # run ready callbacks only (do not advance virtual time for leftover timers)
                self._enter()
                try:
                    guard = 0
                    while self._ready and guard < 100000:
                        guard += 1
                        self._clock_hold = True
                        ntodo = len(self._ready)
                        for _ in range(ntodo):
                            h = self._ready.popleft()
                            if not h._cancelled:
                                try:
                                    h._run()
                                except BaseException:
                                    pass
                finally:
                    self._leave()
            for t in self.all_tasks:
                if t.done() and not t.cancelled():
                    try:
                        t.exception()  # mark retrieved
                    except BaseException:
                        pass
        finally:
            self._ready.clear()
            self._scheduled.clear()
            if not self.is_closed():
                self.close()

    def close(self):
        if self.is_closed():
            return
        self._closed = True
        self._ready.clear()
        self._scheduled.clear()

    # escaped task exceptions, deterministic (creation order), no GC involved
    def task_failures(self):
        out = []
        for t in self.all_tasks:
            if t.done() and not t.cancelled():
                exc = t.exception()
                if exc is not None:
                    out.append((t.get_name(), exc))
        return out
