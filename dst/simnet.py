"""SimNet - the only transport the system under test sees.

SimTransport pairs joined by two one-directional Pipes.  A Pipe is a FIFO byte queue with
one delivery process (TCP never reorders or loses bytes inside a connection); *when* bytes
arrive and *in what pieces* is seeded.  Faults are explicit calls made by the scenario.
"""
from __future__ import annotations

import asyncio
import random
from typing import Callable, Dict, List, Optional, Tuple


# ---------------------------------------------------------------------------------------
class NetConfig:
    """Per-run network knobs (JSON-serialisable through to_dict/from_dict)."""

    def __init__(self, latency="zero", hwm=65536, frag_default="whole", frag=None, connect_delay=0.0):
        self.latency = latency  # zero | lan | slow | bursty
        self.connect_delay = connect_delay  # seconds between the server's accept and the client's connect() returning
        self.hwm = hwm
        self.frag_default = frag_default
        self.frag = dict(frag or {})  # stream label -> mode string

    def mode_for(self, label):
        return self.frag.get(label, self.frag_default)


class Pipe:
    """One direction of a connection: writer endpoint -> reader endpoint."""

    def __init__(self, net, label, src, dst):
        self.net = net
        self.loop = net.loop
        self.label = label
        self.src: "SimTransport" = src
        self.dst: "SimTransport" = dst
        self.rng = random.Random(f"pipe:{net.seed}:{label}")
        self.mode = net.cfg.mode_for(label)
        self.pending = bytearray()
        self.boundaries: List[int] = []  # lengths of individual writes still (partly) pending
        self.offset = 0  # absolute stream offset of pending[0]
        self.written = 0
        self.delivered = 0
        self.timer = None
        self.stalled_until = None  # None | float | 'forever'
        self.fin = False  # writer closed its side: deliver EOF after pending
        self.fin_sent = False
        self.dead = False  # nothing will ever be delivered any more
        self.cuts: Optional[List[int]] = None
        if self.mode.startswith("cuts:"):
            body = self.mode[5:]
            self.cuts = sorted(int(x) for x in body.split(",") if x)
        self.paused_writer = False

    # -- knobs -------------------------------------------------------------------------
    def _delay(self):
        lat = self.net.cfg.latency
        r = self.rng
        if lat == "zero":
            return 0.0
        if lat == "lan":
            return r.choice((0.0, 0.0005, 0.001, 0.002, 0.004))
        if lat == "slow":
            return r.choice((0.05, 0.25, 0.5, 1.0, 2.5))
        if lat == "bursty":
            return 0.0 if r.random() < 0.8 else r.choice((0.5, 1.0, 3.0))
        if lat == "skew":
            # per-pipe constant-ish delay: makes one connection lag behind another
            if not hasattr(self, "_skew"):
                self._skew = r.choice((0.0, 0.001, 0.2, 1.0))
            return self._skew
        raise ValueError(lat)

    def _chunk_len(self):
        n = len(self.pending)
        m = self.mode
        if m == "whole":
            return min(n, self.boundaries[0]) if self.boundaries else n
        if m == "coalesce":
            return n
        if m.startswith("fixed:"):
            return min(n, int(m[6:]))
        if m == "random":
            k = self.rng.choice((1, 2, 3, 5, 8, 13, 40, 100, 1024, 5000))
            return min(n, self.rng.randint(1, k))
        if self.cuts is not None:
            pos = self.offset
            for c in self.cuts:
                if c > pos:
                    return min(n, c - pos)
            return n
        raise ValueError(m)

    # -- writer side -------------------------------------------------------------------
    def write(self, data: bytes):
        if self.dead:
            self.net.count("write_to_dead")
            self.net.bytes_to_dead[self.label] = self.net.bytes_to_dead.get(self.label, 0) + len(data)
            return
        self.pending += data
        self.boundaries.append(len(data))
        self.written += len(data)
        self._kick()
        self._flow()

    def _flow(self):
        src = self.src
        if src is None or src._conn_lost:
            return
        size = len(self.pending)
        if not self.paused_writer and size > self.net.cfg.hwm:
            self.paused_writer = True
            self.net.count("pause_writing")
            try:
                src._protocol.pause_writing()
            except Exception as e:  # pragma: no cover
                self.net.loop.errors.append((self.loop.time(), "pause_writing", repr(e)))
        elif self.paused_writer and size <= self.net.cfg.hwm // 4:
            self.paused_writer = False
            try:
                src._protocol.resume_writing()
            except Exception as e:  # pragma: no cover
                self.net.loop.errors.append((self.loop.time(), "resume_writing", repr(e)))

    def _kick(self):
        if self.timer is None and not self.dead and (self.pending or (self.fin and not self.fin_sent)):
            if self.stalled_until == "forever":
                return
            d = self._delay()
            t = self.loop.time() + d
            if self.stalled_until is not None and self.stalled_until > t:
                t = self.stalled_until
            self.timer = self.loop.call_at(t, self._deliver)

    def stall(self, duration):
        self.net.count("stall")
        if duration == "forever":
            self.stalled_until = "forever"
            if self.timer:
                self.timer.cancel()
                self.timer = None
        else:
            self.stalled_until = self.loop.time() + duration
            if self.timer:
                self.timer.cancel()
                self.timer = None
            self._kick()

    def unstall(self):
        self.stalled_until = None
        self._kick()

    def _deliver(self):
        self.timer = None
        if self.dead:
            return
        dst = self.dst
        if dst._conn_lost or dst._closed_reading:
            # receiver is gone: bytes fall on the floor (a real stack answers RST)
            n = len(self.pending)
            if n:
                self.net.count("bytes_dropped_receiver_gone", n)
            self.pending.clear()
            self.boundaries.clear()
            self.dead = True
            self._flow()
            if self.src is not None and not self.src._conn_lost and n:
                self.src._peer_reset()
            return
        if dst._paused_reading:
            dst._resume_hook = self._kick
            return
        if self.pending:
            n = self._chunk_len()
            chunk = bytes(self.pending[:n])
            del self.pending[:n]
            self.offset += n
            self.delivered += n
            # maintain boundaries
            left = n
            while left and self.boundaries:
                if self.boundaries[0] <= left:
                    left -= self.boundaries.pop(0)
                else:
                    self.boundaries[0] -= left
                    left = 0
            self.net.on_deliver(self, chunk)
            self._flow()
            dst._protocol.data_received(chunk)
        if not self.pending and self.fin and not self.fin_sent:
            self.fin_sent = True
            self.net.on_eof(self)
            dst._eof_from_peer()
        self._kick()

    def kill(self):
        """Connection torn down: nothing further is delivered."""
        self.dead = True
        self.pending.clear()
        self.boundaries.clear()
        if self.timer:
            self.timer.cancel()
            self.timer = None


# ---------------------------------------------------------------------------------------
class SimTransport(asyncio.Transport):
    def __init__(self, net, name, protocol):
        super().__init__()
        self.net = net
        self.loop = net.loop
        self.name = name
        self._protocol = protocol
        self.out: Pipe = None  # this endpoint -> peer
        self.inp: Pipe = None  # peer -> this endpoint
        self.peer: "SimTransport" = None
        self._closing = False
        self._conn_lost = False
        self._closed_reading = False
        self._paused_reading = False
        self._resume_hook = None
        self._eof_seen = False
        self.fail_next_write: Optional[BaseException] = None
        self.fail_next_write_keep: Optional[BaseException] = None  # a one-shot failure that leaves the connection up
        self.writes_after_close = 0

    # -- asyncio.Transport API -----------------------------------------------------
    def get_extra_info(self, name, default=None):
        if name == "peername":
            return ("sim", self.name)
        if name == "sockname":
            return ("sim", self.name)
        return default

    def is_closing(self):
        return self._closing

    def set_protocol(self, protocol):
        self._protocol = protocol

    def get_protocol(self):
        return self._protocol

    def is_reading(self):
        return not self._paused_reading and not self._closing

    def pause_reading(self):
        self._paused_reading = True
        self.net.count("pause_reading")

    def resume_reading(self):
        if self._paused_reading:
            self._paused_reading = False
            hook, self._resume_hook = self._resume_hook, None
            if hook:
                hook()

    def set_write_buffer_limits(self, high=None, low=None):
        pass

    def get_write_buffer_size(self):
        return len(self.out.pending)

    def get_write_buffer_limits(self):
        return (self.net.cfg.hwm // 4, self.net.cfg.hwm)

    def can_write_eof(self):
        return True

    def write_eof(self):
        if not self.out.fin:
            self.out.fin = True
            self.out._kick()

    def write(self, data):
        if not data:
            return
        if self.fail_next_write is not None:
            # injected failing system call: this write raises synchronously, and the connection is broken from here on
            exc, self.fail_next_write = self.fail_next_write, None
            self.net.count("write_raised")
            self._force_close(exc)
            raise exc
        if self._conn_lost or self._closing:
            self.writes_after_close += 1
            self.net.count("write_after_close")
            return
        if self.fail_next_write_keep is not None:
            # injected transient failure (ENOBUFS-like): this one write raises and writes nothing, the connection stays up
            exc, self.fail_next_write_keep = self.fail_next_write_keep, None
            self.net.count("write_raised_transient")
            raise exc
        self.out.write(bytes(data))

    def close(self):
        if self._closing:
            return
        self._closing = True
        self._closed_reading = True
        self.net.on_close(self)
        # flush what we have, then FIN
        self.out.fin = True
        self.out._kick()
        self.loop.call_soon(self._call_connection_lost, None)

    def abort(self):
        self._force_close(None)

    # -- internals -----------------------------------------------------------------
    def _call_connection_lost(self, exc):
        if self._conn_lost:
            return
        self._conn_lost = True
        self._closing = True
        self._closed_reading = True
        try:
            self._protocol.connection_lost(exc)
        except Exception as e:  # pragma: no cover
            self.loop.errors.append((self.loop.time(), "connection_lost", repr(e)))

    def _force_close(self, exc):
        if self._conn_lost:
            return
        self._closing = True
        self._closed_reading = True
        self.out.kill()
        self.inp.kill()
        self.loop.call_soon(self._call_connection_lost, exc)

    def _eof_from_peer(self):
        if self._conn_lost or self._eof_seen:
            return
        self._eof_seen = True
        keep_open = False
        try:
            keep_open = self._protocol.eof_received()
        except Exception as e:  # pragma: no cover
            self.loop.errors.append((self.loop.time(), "eof_received", repr(e)))
        if not keep_open:
            self.close()

    def _peer_reset(self):
        """The peer is gone and we wrote to it: RST."""
        self.net.count("rst_on_write_to_closed_peer")
        self._force_close(ConnectionResetError("sim: connection reset by peer"))


# ---------------------------------------------------------------------------------------
class SimServer:
    def __init__(self, net, factory, host, port):
        self.net = net
        self.factory = factory
        self.host, self.port = host, port
        self._closed = False
        self._forever = None
        self.sockets = ()

    def is_serving(self):
        return not self._closed

    def close(self):
        if self._closed:
            return
        self._closed = True
        self.net.listeners.pop((self.port,), None)
        if self._forever is not None and not self._forever.done():
            self._forever.cancel()

    async def wait_closed(self):
        return None

    async def start_serving(self):
        return None

    async def serve_forever(self):
        if self._forever is not None:
            raise RuntimeError("already serving")
        self._forever = self.net.loop.create_future()
        try:
            await self._forever
        except asyncio.CancelledError:
            try:
                self.close()
                await self.wait_closed()
            finally:
                raise
        finally:
            self._forever = None

    async def __aenter__(self):
        return self

    async def __aexit__(self, *exc):
        self.close()
        await self.wait_closed()


class SimNet:
    def __init__(self, loop, seed, cfg: NetConfig):
        self.loop = loop
        self.seed = seed
        self.cfg = cfg
        self.listeners: Dict[Tuple, SimServer] = {}
        self.conns: List[Tuple[SimTransport, SimTransport]] = []
        self.counters: Dict[str, int] = {}
        self.bytes_to_dead: Dict[str, int] = {}
        self.taps: List[Callable] = []  # fn(kind, pipe_label, data)
        self._conn_seq = 0
        self.connect_names: List[str] = []  # names to give to upcoming client connections
        loop.net = self

    def count(self, k, n=1):
        self.counters[k] = self.counters.get(k, 0) + n

    def on_deliver(self, pipe, chunk):
        self.count("deliveries")
        for t in self.taps:
            t("data", pipe.label, chunk)

    def on_eof(self, pipe):
        for t in self.taps:
            t("eof", pipe.label, b"")

    def on_close(self, tr):
        for t in self.taps:
            t("close", tr.name, b"")

    def listen(self, factory, host, port):
        srv = SimServer(self, factory, host, port)
        self.listeners[(port,)] = srv
        return srv

    async def connect(self, factory, host, port):
        srv = self.listeners.get((port,))
        if srv is None or srv._closed:
            raise ConnectionRefusedError(f"sim: nothing listens on {port}")
        self._conn_seq += 1
        name = self.connect_names.pop(0) if self.connect_names else f"c{self._conn_seq}"
        cproto = factory()
        sproto = srv.factory()
        ct = SimTransport(self, f"{name}.cli", cproto)
        st = SimTransport(self, f"{name}.srv", sproto)
        ct.peer, st.peer = st, ct
        up = Pipe(self, f"{name}.up", ct, st)  # client -> server
        down = Pipe(self, f"{name}.down", st, ct)  # server -> client
        ct.out, ct.inp = up, down
        st.out, st.inp = down, up
        self.conns.append((ct, st))
        self.count("connections")
        # the server accepts now; the client's connect() returns after the configured handshake delay (a server may
        # already have pushed data by then: it waits in the pipe until the client side exists)
        sproto.connection_made(st)
        if self.cfg.connect_delay:
            ct._paused_reading = True
            fut = self.loop.create_future()
            self.loop.call_later(self.cfg.connect_delay, fut.set_result, None)
            await fut
            cproto.connection_made(ct)
            ct.resume_reading()
            self.count("delayed_connects")
        else:
            cproto.connection_made(ct)
        return ct, cproto

    def close_all(self):
        for ct, st in self.conns:
            for t in (ct, st):
                t._closing = True
                t._conn_lost = True
                t._closed_reading = True
                t.out.kill()
                t.inp.kill()
        for srv in list(self.listeners.values()):
            srv._closed = True
        self.listeners.clear()

    # -- fault helpers (called by scenarios) ------------------------------------------
    def find(self, name) -> Tuple[SimTransport, SimTransport]:
        for ct, st in self.conns:
            if ct.name == f"{name}.cli":
                return ct, st
        raise KeyError(name)

    def fault_reset(self, victim: SimTransport):
        """RST seen by `victim`: pending data in both directions is lost."""
        self.count("fault_reset")
        victim._force_close(ConnectionResetError("sim: injected reset"))
        # the other end disappears as well (it was the one that reset)
        peer = victim.peer
        if not peer._conn_lost:
            peer._force_close(ConnectionResetError("sim: injected reset"))
