"""SimPool - a simulated K-worker thread pool behind loop.run_in_executor, and the
simulated stdin/stdout files the TTY transport talks to through (real) aiofiles wrappers.

A job has an *effect instant* (when fn() is really called on the simulated file) and a
*completion instant* (when the awaiting coroutine is resumed); both are seeded.  Jobs are
dequeued FIFO by free workers; two jobs on different workers can take effect in either
order - exactly the freedom a real thread pool has.
"""
from __future__ import annotations

import random
from collections import deque


class WouldBlock(Exception):
    """Raised by a SimPipeFile operation that would block its worker thread."""

    def __init__(self, file):
        self.file = file


class PoolConfig:
    def __init__(self, workers=3, jitter="small"):
        self.workers = workers
        self.jitter = jitter  # none | small | wide


class SimPool:
    def __init__(self, loop, seed, cfg: PoolConfig):
        self.loop = loop
        self.cfg = cfg
        self.rng = random.Random(f"pool:{seed}")
        self.queue = deque()
        self.free = list(range(cfg.workers))
        self.blocked = {}  # worker -> (job)
        self.submitted = 0
        self.effects = []  # submission indices in effect order
        self.counters = {}
        loop.pool = self

    def count(self, k, n=1):
        self.counters[k] = self.counters.get(k, 0) + n

    def _d(self):
        j = self.cfg.jitter
        if j == "none":
            return 0.0
        if j == "small":
            return self.rng.choice((0.0, 0.0001, 0.0002, 0.0005, 0.001))
        return self.rng.choice((0.0, 0.001, 0.01, 0.1, 0.5))

    def submit(self, func, *args):
        fut = self.loop.create_future()
        idx = self.submitted
        self.submitted += 1
        self.queue.append((idx, func, args, fut))
        self._dispatch()
        return fut

    def _dispatch(self):
        while self.queue and self.free:
            w = self.free.pop(0)
            job = self.queue.popleft()
            self.loop.call_later(self._d(), self._effect, w, job)

    def _effect(self, w, job):
        idx, func, args, fut = job
        try:
            res = func(*args)
            ok = True
        except WouldBlock as wb:
            self.count("blocked_job")
            self.blocked[w] = job
            wb.file._waiters.append(lambda: self._unblock(w))
            return
        except BaseException as e:  # noqa
            res, ok = e, False
        if self.effects and idx < self.effects[-1]:
            self.count("effect_out_of_submission_order")
        self.effects.append(idx)
        self.loop.call_later(self._d(), self._complete, w, fut, ok, res)

    def _unblock(self, w):
        job = self.blocked.pop(w, None)
        if job is not None:
            self.loop.call_later(self._d(), self._effect, w, job)

    def _complete(self, w, fut, ok, res):
        self.free.append(w)
        self.free.sort()
        if not fut.done():
            if ok:
                fut.set_result(res)
            else:
                fut.set_exception(res)
        self._dispatch()


class SimPipeFile:
    """A text file object as seen by one worker thread.

    mode 'r': readline() blocks (WouldBlock) until a full line or EOF is available.
    mode 'w': write()/flush() append to `self.output`; can be made to fail or stall.
    """

    def __init__(self, name, mode):
        self.name = name
        self.mode = mode
        self._in = ""  # unread input
        self._eof = False
        self._waiters = []
        self.output = []  # list of strings actually written, in effect order
        self.flushed = []  # what has left the stream buffer: written data reaches the reader only when flushed
        self._unflushed = []
        self.fail_with = None  # exception instance to raise from write/flush
        self.stalled = False
        self.closed = False
        self.flushes = 0
        self.writes_after_fail = 0

    # -- harness side --------------------------------------------------------------
    def feed(self, text):
        self._in += text
        self._wake()

    def feed_eof(self):
        self._eof = True
        self._wake()

    def unstall(self):
        self.stalled = False
        self._wake()

    def _wake(self):
        ws, self._waiters = self._waiters, []
        for w in ws:
            w()

    # -- file API (called on a pool worker) --------------------------------------------
    def readline(self):
        i = self._in.find("\n")
        if i >= 0:
            line, self._in = self._in[: i + 1], self._in[i + 1 :]
            return line
        if self._eof:
            line, self._in = self._in, ""
            return line
        raise WouldBlock(self)

    def write(self, data):
        if self.stalled:
            raise WouldBlock(self)
        if self.fail_with is not None:
            self.writes_after_fail += 1
            raise self.fail_with
        self.output.append(data)
        self._unflushed.append(data)
        return len(data)

    def flush(self):
        if self.stalled:
            raise WouldBlock(self)
        if self.fail_with is not None:
            raise self.fail_with
        self.flushes += 1
        self.flushed += self._unflushed
        self._unflushed = []

    @property
    def text(self):
        return "".join(self.output)

    @property
    def flushed_text(self):
        """What the process reading the other end of the pipe has got: the flushed part of what was written."""
        return "".join(self.flushed)
