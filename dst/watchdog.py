"""Deterministic step watchdog for the synchronous loops in indi.transport.buffer.

A sys.monitoring (PEP 669) tool counts LINE events on every code object of the module and
raises WatchdogTripped from inside the monitored code when one Buffer.process() call
exceeds its budget.  The count is a pure function of code and input, so it replays.
The trip is latched here because the transports' bare `except:` would swallow it.
"""
from __future__ import annotations

import sys
import types

from indi.transport import buffer as _buffer_mod

TOOL = 3  # a free tool id (0..5)
_mon = sys.monitoring


class WatchdogTripped(BaseException):
    pass


class _State:
    count = 0
    budget = None  # None = not inside a monitored process() call
    tripped = None  # latched description
    max_count = 0
    min_headroom = None  # smallest budget/count ratio seen
    calls = 0
    total = 0
    depth = 0


S = _State()
_installed = False
_orig_process = _buffer_mod.Buffer.process


def reset():
    S.count = 0
    S.budget = None
    S.tripped = None
    S.max_count = 0
    S.min_headroom = None
    S.calls = 0
    S.total = 0
    S.depth = 0


def budget_for(data: str) -> int:
    g = data.count(">")
    r = data.count("<")
    return min(50_000_000, 20000 + 1000 * (r + 1) + 300 * (g + 1) * (r + 1))


def _on_line(code, line):
    if S.budget is None:
        return
    S.count += 1
    if S.count > S.budget:
        b = S.budget
        S.budget = None
        S.tripped = f"Buffer.process exceeded {b} line events (at {code.co_name}:{line})"
        raise WatchdogTripped(S.tripped)


def _process(self, callback):
    if S.depth:  # re-entrant call (a callback feeding the same module): no new budget
        return _orig_process(self, callback)
    S.depth = 1
    S.count = 0
    S.budget = budget_for(self.data)
    budget = S.budget
    S.calls += 1
    try:
        return _orig_process(self, callback)
    finally:
        S.depth = 0
        S.budget = None
        c = S.count
        S.total += c
        if c > S.max_count:
            S.max_count = c
        hr = budget / max(c, 1)
        if S.min_headroom is None or hr < S.min_headroom:
            S.min_headroom = hr


def _code_objects(mod):
    out = []

    def walk(code):
        out.append(code)
        for c in code.co_consts:
            if isinstance(c, types.CodeType):
                walk(c)

    for v in vars(mod).values():
        if isinstance(v, type) and v.__module__ == mod.__name__:
            for a in vars(v).values():
                f = a.fget if isinstance(a, property) else a
                if isinstance(f, types.FunctionType):
                    walk(f.__code__)
                if isinstance(a, property) and a.fset:
                    walk(a.fset.__code__)
        elif isinstance(v, types.FunctionType) and v.__module__ == mod.__name__:
            walk(v.__code__)
    return out


def install():
    global _installed
    if _installed:
        return
    _installed = True
    _mon.use_tool_id(TOOL, "indipy-dst-watchdog")
    _mon.register_callback(TOOL, _mon.events.LINE, _on_line)
    for code in _code_objects(_buffer_mod):
        if code is _process.__code__:
            continue
        _mon.set_local_events(TOOL, code, _mon.events.LINE)
    _buffer_mod.Buffer.process = _process


install()
