"""Worlds that push a character stream, piece by piece, into the receive path:

  direct       Buffer.append + Buffer.process
  server       SimNet -> real asyncio StreamReader -> real server ConnectionHandler.wait_for_messages
  client       stub server -> SimNet -> real client TCP.connect()/ConnectionHandler (for_blobs False)
  client_blob  same with for_blobs=True (threshold disabled by the library)
  tty          SimPipeFile -> real aiofiles wrapper -> SimPool -> real TTY(router, stdin, stdout)

Every world exposes feed(piece) -> None (which returns once the system is quiescent again,
i.e. after 'the processing call that follows arrival'), delivered (list) and finish().
"""
from __future__ import annotations

from aiofiles.threadpool.text import AsyncTextIndirectIOWrapper

from indi.transport import Buffer
from indi.transport.client import tcp as client_tcp
from indi.transport.server import tcp as server_tcp
from indi.transport.server import tty as server_tty

from .. import watchdog
from ..env import RawPeer, Sim
from ..simnet import NetConfig
from ..simpool import PoolConfig, SimPipeFile


class RecordingRouter:
    """Harness stub standing in for indi.routing.Router on the receive path."""

    def __init__(self, sink):
        self.sink = sink
        self.clients = []
        self.unregistered = []
        self.raise_on = None  # predicate(message) -> bool : simulate a handler exception

    def register_client(self, c):
        self.clients.append(c)

    def unregister_client(self, c):
        if c in self.clients:
            self.clients.remove(c)
        self.unregistered.append(c)

    def process_message(self, message, sender=None):
        self.sink(message)
        if self.raise_on is not None and self.raise_on(message):
            raise RuntimeError("injected handler exception")


class World:
    name = "?"

    def __init__(self, threshold="default"):
        self.delivered = []
        self.raised = None
        self.threshold = threshold

    def _sink(self, m):
        self.delivered.append(m)

    def _apply_threshold(self, buf):
        if self.threshold != "default":
            buf.max_buffer_size_before_frontal_cleanup = self.threshold

    def feed(self, piece):
        raise NotImplementedError

    def finish(self):
        pass

    def buffer_len(self):
        return None

    def tripped(self):
        return watchdog.S.tripped


class DirectWorld(World):
    name = "direct"

    def __init__(self, threshold="default"):
        super().__init__(threshold)
        watchdog.reset()
        self.buf = Buffer()
        self._apply_threshold(self.buf)

    def feed(self, piece):
        self.buf.append(piece)
        try:
            self.buf.process(self._sink)
        except watchdog.WatchdogTripped:
            pass
        except BaseException as e:  # noqa
            self.raised = repr(e)

    def buffer_len(self):
        return self.buf.data_len


class NetWorld(World):
    """Common part of the SimNet-based worlds."""

    def __init__(self, threshold, seed):
        super().__init__(threshold)
        self.sim = Sim(seed, NetConfig(latency="zero", frag_default="whole", hwm=1 << 30), PoolConfig(workers=3, jitter="small"))
        self.sim.__enter__()
        self.handler = None
        self.task = None

    def finish(self):
        try:
            self.sim.__exit__(None, None, None)
        except BaseException:
            pass

    def _check_task(self):
        t = self.task
        if t is not None and t.done() and not t.cancelled() and self.raised is None:
            exc = t.exception()
            if exc is not None and not isinstance(exc, watchdog.WatchdogTripped):
                self.raised = repr(exc)

    def buffer_len(self):
        return self.handler.buffer.data_len if self.handler is not None else None


class ServerWorld(NetWorld):
    name = "server"

    def __init__(self, threshold="default", seed=0):
        super().__init__(threshold, seed)
        sim = self.sim
        self.router = RecordingRouter(self._sink)
        self.server_task = sim.spawn(server_tcp.TCP(self.router, port=7624).start())
        sim.settle()
        self.peer = RawPeer(sim, "peer")
        sim.spawn(sim.loop.create_connection(lambda: self.peer, "h", 7624))
        sim.settle()
        self.handler = server_tcp.ConnectionHandler.connections[-1]
        self._apply_threshold(self.handler.buffer)

    def feed(self, piece):
        self.peer.send(piece.encode("latin1"))
        self.sim.settle()
        # the server transport swallows exceptions with a bare except and closes: detect that
        if self.handler not in server_tcp.ConnectionHandler.connections and self.raised is None:
            if not watchdog.S.tripped:
                self.raised = "server handler closed the connection"


class ClientWorld(NetWorld):
    name = "client"
    for_blobs = False

    def __init__(self, threshold="default", seed=0):
        super().__init__(threshold, seed)
        sim = self.sim
        self.peers = []

        def factory():
            p = RawPeer(sim, "srv")
            self.peers.append(p)
            return p

        sim.spawn(sim.loop.create_server(factory, "h", 7624))
        sim.settle()
        box = []

        async def connect():
            h = await client_tcp.TCP("h", 7624).connect(self._sink, for_blobs=self.for_blobs)
            box.append(h)
            await h.wait_for_messages()

        self.task = sim.spawn(connect())
        sim.settle()
        self.handler = box[0]
        self._apply_threshold(self.handler.buffer)
        self.peer = self.peers[0]

    def feed(self, piece):
        self.peer.send(piece.encode("latin1"))
        self.sim.settle()
        self._check_task()


class ClientBlobWorld(ClientWorld):
    name = "client_blob"
    for_blobs = True


class TTYWorld(NetWorld):
    name = "tty"

    def __init__(self, threshold="default", seed=0):
        super().__init__(threshold, seed)
        sim = self.sim
        self.router = RecordingRouter(self._sink)
        self.stdin_file = SimPipeFile("stdin", "r")
        self.stdout_file = SimPipeFile("stdout", "w")
        stdin = AsyncTextIndirectIOWrapper("sim.stdin", None, None, indirect=lambda: self.stdin_file)
        stdout = AsyncTextIndirectIOWrapper("sim.stdout", None, None, indirect=lambda: self.stdout_file)
        # TTY.start() builds the handler internally; find it through the router stub
        self.task = sim.spawn(server_tty.TTY(self.router, stdin, stdout).start())
        sim.settle()
        self.handler = self.router.clients[0]
        self._apply_threshold(self.handler.buffer)

    def feed(self, piece):
        self.stdin_file.feed(piece)
        self.sim.settle()
        if self.task.done() and self.raised is None and not watchdog.S.tripped:
            self.raised = "tty handler terminated"
        if self.router.unregistered and self.raised is None and not watchdog.S.tripped:
            self.raised = "tty handler unregistered itself"


WORLDS = {w.name: w for w in (DirectWorld, ServerWorld, ClientWorld, ClientBlobWorld, TTYWorld)}


def make_world(name, threshold, seed=0):
    cls = WORLDS[name]
    if cls is DirectWorld:
        return DirectWorld(threshold)
    return cls(threshold, seed)
