"""Scenario step vocabulary shared by the full-stack properties, and its interpreter."""
from __future__ import annotations

from indi.device.values import BLOB as BlobValue


def to_driver_value(v):
    if isinstance(v, dict) and "blob_hex" in v:
        return BlobValue(bytes.fromhex(v["blob_hex"]), v["format"])
    return v


class OpResult:
    __slots__ = ("ok", "skipped", "error")

    def __init__(self, ok=True, skipped=None, error=None):
        self.ok, self.skipped, self.error = ok, skipped, error


def apply_step(stack, st):
    """Executes one step inside the loop (get_running_loop() works). Never settles. Returns OpResult."""
    sim = stack.sim
    op = st["op"]

    def run():
        if op in ("d_assign", "d_set_value", "d_bool", "d_reset"):
            el = stack.el_obj(st["dev"], st["vec"], st["el"])
            if el is None:
                return OpResult(False, skipped="element object not reachable")
            if op == "d_assign":
                el.value = to_driver_value(st["value"])
            elif op == "d_set_value":
                el.set_value(to_driver_value(st["value"]))
            elif op == "d_reset":
                el.reset_value(to_driver_value(st["value"]))
            else:
                el.bool_value = st["value"]
        elif op == "d_state":
            vec, _ = stack.vec_obj(st["dev"], st["vec"])
            if vec is None:
                return OpResult(False, skipped="vector object not reachable")
            vec.state_ = st["value"]
        elif op == "d_venable":
            vec, _ = stack.vec_obj(st["dev"], st["vec"])
            if vec is None:
                return OpResult(False, skipped="vector object not reachable")
            vec.enabled = st["value"]
        elif op == "d_eenable":
            el = stack.el_obj(st["dev"], st["vec"], st["el"])
            if el is None:
                return OpResult(False, skipped="element object not reachable")
            el.enabled = st["value"]
        elif op == "d_genable":
            grp = stack.group_obj(st["dev"], st["group"])
            if grp is None:
                return OpResult(False, skipped="group object not reachable")
            grp.enabled = st["value"]
        elif op == "d_select":
            vec, _ = stack.vec_obj(st["dev"], st["vec"])
            if vec is None:
                return OpResult(False, skipped="vector object not reachable")
            vec.selected_value = st["el"]
        elif op == "d_selects":
            vec, _ = stack.vec_obj(st["dev"], st["vec"])
            if vec is None:
                return OpResult(False, skipped="vector object not reachable")
            vec.selected_values = list(st["els"])
        elif op == "c_handshake":
            node = stack.clients[st["c"] % len(stack.clients)]
            if not node.started:
                return OpResult(False, skipped="client not started")
            node.client.handshake(st.get("device"), st.get("name"))
            node.handshakes.append((st.get("device"), st.get("name")))
        elif op == "c_write":
            node = stack.clients[st["c"] % len(stack.clients)]
            if not node.started:
                return OpResult(False, skipped="client not started")
            dev = node.client.get_device(st["dev"])
            vec = dev.get_vector(st["vec"]) if dev else None
            if vec is None:
                return OpResult(False, skipped="target not in the client's mirror")
            for name, val in st["els"]:
                el = vec.get_element(name)
                if el is None:
                    return OpResult(False, skipped="element not in the client's mirror")
            for name, val in st["els"]:
                vec.get_element(name).value = to_driver_value(val)
            vec.submit()
        elif op == "start_client":
            node = stack.clients[st["c"] % len(stack.clients)]
            if not node.started:
                node.start()
        elif op == "snoop":
            drv = stack.drivers[st["drv"]]
            drv.snoop_device(st["device"], st.get("name"))
        else:
            raise ValueError(f"unknown op {op}")
        return OpResult(True)

    try:
        return sim.do(run)
    except BaseException as e:  # noqa  - an API call of the scenario raised
        if type(e).__name__ in ("WatchdogTripped", "StepCapExceeded", "KeyboardInterrupt", "SystemExit"):
            raise
        return OpResult(False, error=f"{type(e).__name__}: {e}")
