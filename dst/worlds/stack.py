"""Full-stack world: real Router + generated real Drivers + real TCP server (+ optional real TTY
server) + real indi.client.Client nodes (control + BLOB connection) + raw stub peers + in-process
snooping clients, all on one SimLoop/SimNet/SimPool."""
from __future__ import annotations

from aiofiles.threadpool.text import AsyncTextIndirectIOWrapper

from indi.client.client import Client
from indi.device import Driver
from indi.message import IndiMessage
from indi.routing import Router
from indi.transport.client import TCP as ClientTCP
from indi.transport.server import tcp as server_tcp
from indi.transport.server import tty as server_tty

from ..env import RawPeer, Sim
from ..gen import drivers as G
from ..ref.client_model import ClientModel
from ..ref.structural import short, view_of_message
from ..ref.xmlsplit import parse_elements
from ..simpool import SimPipeFile

PORT = 7624


class ClientNode:
    def __init__(self, stack, idx):
        self.stack = stack
        self.idx = idx
        self.name = f"cl{idx}"
        self.client = Client(ClientTCP("sim", PORT), ClientTCP("sim", PORT))
        self.applied = []  # views in the order the client applied them
        self.model = ClientModel()
        self.api_errors = []
        self.handshakes = [(None, None)]  # scopes requested (start() asks for everything)
        orig = self.client.process_message

        def spy(msg, orig=orig):
            v = view_of_message(msg)
            self.applied.append(v)
            stack.sim.log(self.name, "apply", short(v, 120))
            self.model.apply(v)
            return orig(msg)

        self.client.process_message = spy
        self.started = False

    def start(self):
        sim = self.stack.sim
        sim.net.connect_names += [f"{self.name}.ctl", f"{self.name}.blob"]
        self.task = sim.spawn(self.client.start())
        self.started = True


class Stack:
    def __init__(self, sim: Sim, device_specs, extra_attrs=None, with_tty=False, router_cls=Router):
        self.sim = sim
        self.specs = {s["name"]: s for s in device_specs}
        self.router = router_cls()
        self.router_log = []  # (origin, sender_name, view)
        self.router_cause = []  # parallel to router_log: tag of the client message being answered, or None
        self._cause_stack = []
        self.reparse_failures = []
        self.hooks = []  # fn(origin, sender, message) called before routing
        # len(router_log) at every point of quiescence (a settle that drained everything in flight)
        self.quiescent_marks = []
        orig_settle = sim.settle

        def settle(until=None):
            r = orig_settle(until)
            if until is None:
                self.quiescent_marks.append(len(self.router_log))
            return r

        sim.settle = settle
        self.drivers = {}
        self.clients = []
        self.raw = []
        self._wrap_router()
        classes = {}
        for spec in device_specs:
            ea = extra_attrs(spec) if extra_attrs else None
            cls = classes.get(spec.get("class_of"))
            if cls is None and spec.get("subclass_of") in classes:
                cls = G.build_class(spec, ea, base_cls=classes[spec["subclass_of"]], skip_levels=spec["inherited_levels"])
                classes[spec["name"]] = cls
                sim.probe("driver_family_base_and_subclass")
            elif cls is None:
                cls = G.build_class(spec, ea)
                classes[spec["name"]] = cls
            else:
                sim.probe("two_instances_of_one_driver_class")
            self.drivers[spec["name"]] = G.instantiate(spec, self.router, ea, cls=cls)
        self.server = server_tcp.TCP(self.router, port=PORT)
        self.server_task = sim.spawn(self.server.start())
        self.tty = None
        if with_tty:
            self.stdin_file = SimPipeFile("stdin", "r")
            self.stdout_file = SimPipeFile("stdout", "w")
            stdin = AsyncTextIndirectIOWrapper("sim.stdin", None, None, indirect=lambda: self.stdin_file)
            stdout = AsyncTextIndirectIOWrapper("sim.stdout", None, None, indirect=lambda: self.stdout_file)
            self.tty = server_tty.TTY(self.router, stdin, stdout)
            self.tty_task = sim.spawn(self.tty.start())
        sim.settle()

    # -- router spy + reparse monitor -----------------------------------------------------
    def _wrap_router(self):
        router = self.router
        orig = router.process_message
        sim = self.sim

        def pm(message, sender=None):
            if isinstance(sender, Driver):
                origin, sname = "driver", sender.name
                self._reparse(message, sname)
            elif sender is None:
                origin, sname = "none", None
            else:
                origin, sname = "client", type(sender).__name__
            v = view_of_message(message)
            self.router_log.append((origin, sname, v))
            # what this message is an answer to: the client-originated message being routed right now, if any
            self.router_cause.append(self._cause_stack[-1] if self._cause_stack else None)
            sim.log("router", origin, short(v, 120))
            for h in self.hooks:
                h(origin, sender, message)
            if origin != "driver":
                self._cause_stack.append(message.tag_name())
                try:
                    return orig(message, sender)
                finally:
                    self._cause_stack.pop()
            return orig(message, sender)

        router.process_message = pm

    def _reparse(self, message, sname):
        try:
            data = message.to_string()
            back = IndiMessage.from_string(data.decode("latin1"))
            v1, v2 = view_of_message(message), view_of_message(back)
            if v1 != v2:
                self.reparse_failures.append((sname, f"reads back differently: {short(v1)} -> {short(v2)}"))
        except BaseException as e:  # noqa
            self.reparse_failures.append((sname, f"{type(e).__name__}: {e} for {short(view_of_message(message))}"))

    # -- nodes --------------------------------------------------------------------------
    def add_client(self, start=True):
        node = ClientNode(self, len(self.clients))
        self.clients.append(node)
        if start:
            node.start()
        return node

    def add_raw(self, name=None):
        p = RawPeer(self.sim, name or f"raw{len(self.raw)}")
        self.raw.append(p)
        self.sim.net.connect_names.append(p.name)
        self.sim.spawn(self.sim.loop.create_connection(lambda: p, "sim", PORT))
        return p

    def handlers(self):
        return list(server_tcp.ConnectionHandler.connections)

    # -- truth --------------------------------------------------------------------------
    def truth(self, devname):
        """Reads the driver's state through its public attributes only.
        -> {"missing_groups": [...], "vectors": {vname: {...}}}"""
        spec = self.specs[devname]
        drv = self.drivers[devname]
        out = {"missing_groups": [], "vectors": {}}
        for attr, g in G.effective_groups(spec).items():
            grp = getattr(drv, attr, None)
            if grp is None or not hasattr(grp, "vectors") or grp.name != g["name"]:
                out["missing_groups"].append(attr)
                continue
            for vattr, v in g["vectors"].items():
                vec = getattr(grp, vattr)
                els = {}
                for eattr, e in v["elements"].items():
                    el = getattr(vec, eattr)
                    els[e["name"]] = {"value": el.value, "enabled": el.enabled, "spec": e}
                out["vectors"][v["name"]] = {"kind": v["kind"], "group": g["name"], "enabled": vec.enabled, "state": vec.state_,
                                            "spec": v, "elements": els}
        return out

    def vec_obj(self, devname, vname):
        spec = self.specs[devname]
        drv = self.drivers[devname]
        for attr, g in G.effective_groups(spec).items():
            for vattr, v in g["vectors"].items():
                if v["name"] == vname:
                    grp = getattr(drv, attr, None)
                    if grp is None:
                        return None, None
                    return getattr(grp, vattr), v
        return None, None

    def el_obj(self, devname, vname, ename):
        vec, v = self.vec_obj(devname, vname)
        if vec is None:
            return None
        for eattr, e in v["elements"].items():
            if e["name"] == ename:
                return getattr(vec, eattr)
        return None

    def group_obj(self, devname, gname):
        spec = self.specs[devname]
        for attr, g in G.effective_groups(spec).items():
            if g["name"] == gname:
                return getattr(self.drivers[devname], attr, None)
        return None

    # -- failures -------------------------------------------------------------------------
    def escaped(self):
        """Exceptions that escaped any task, plus loop-level errors; ConnectionError excluded by callers when a fault is in play."""
        out = []
        for name, exc in self.sim.loop.task_failures():
            out.append(f"task {name}: {type(exc).__name__}: {exc}")
        for t, msg, exc in self.sim.loop.errors:
            out.append(f"loop error at {t}: {msg} {exc}")
        return out
