#!/usr/bin/env python3
"""Writes /verif/audit/SUMMARY.md from audit/results.json and the notes in tools/mutants.py."""
import json
import os
import sys

ROOT = os.path.dirname(os.path.dirname(os.path.abspath(__file__)))
sys.path.insert(0, ROOT)
from tools.mutants import M  # noqa

res = json.load(open(os.path.join(ROOT, "audit", "results.json")))
rows = []
caught = missed = notargets = 0
for m in M:
    r = res.get(m["id"], {})
    checks = r.get("checks", {})
    if not m["props"]:
        notargets += 1
        rows.append((m["id"], m["file"], "-", "not targeted", m["note"]))
        continue
    for pid in m["props"]:
        c = checks.get(pid)
        if c is None:
            rows.append((m["id"], m["file"], pid, "not run" + (" (pattern out of date)" if r.get("pattern_missing") else ""), m["note"]))
        elif c["exit"] == 1:
            caught += 1
            clause = next((l for l in c["report"] if l.startswith("violation clauses")), "")
            rows.append((m["id"], m["file"], pid, "caught " + clause.split(": ", 1)[-1][:70], m["note"]))
        elif c["exit"] == 0:
            missed += 1
            rows.append((m["id"], m["file"], pid, "MISSED", m["note"]))
        else:
            rows.append((m["id"], m["file"], pid, f"harness exit {c['exit']}", m["note"]))
with open(os.path.join(ROOT, "audit", "SUMMARY.md"), "w") as f:
    f.write(f"# Mutation audit\n\n{len(M)} catalogued single-site changes; {caught} (mutant, check) pairs caught, {missed} missed, "
            f"{notargets} mutants not targeted (equivalent / performance-only, see note).\n\n"
            "| mutant | file | check | result | note |\n|---|---|---|---|---|\n")
    for r in rows:
        f.write("| " + " | ".join(str(x).replace("|", "/") for x in r) + " |\n")
print(f"caught={caught} missed={missed} untargeted={notargets}")
for r in rows:
    if r[3].startswith(("MISSED", "not run", "harness")):
        print("  ", r[0], r[2], r[3], "--", r[4][:90])
