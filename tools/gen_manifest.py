#!/usr/bin/env python3
"""Regenerates MANIFEST.json from the table below (kept as the single source of truth)."""
import json
import os

ROOT = os.path.dirname(os.path.dirname(os.path.abspath(__file__)))

NA = {
    "C03": "pure function of one message value (serialize/parse): no schedule, clock, fault or interleaving for a simulator to decide",
    "C10": "pure functions num_to_str/str_to_num of (value, format): nothing to simulate",
    "C13": "pure function of one XML element (parser validation): nothing to simulate",
    "C20": "pure function of two message values (equality): nothing to simulate",
}

CHECKS = {
    "C01": ("exploration", "Seeded search over generated driver definitions (inheritance depth <= 3, all five vector kinds, three switch rules, printf and sexagesimal formats, enabled flags on groups/vectors/elements, 1-3 devices) (optionally two instances of one driver class) x operation histories (driver-side assign/set_value/bool_value/state/enabled/selected_value, flags flipped while the group is hidden, client-side handshake and assign+submit incl. multi-element writes with one unusable element, late client start, in-process snooping, temporary stalls, gaps in virtual time or exact loop iterations) x network schedules (8 fragmentation modes, 6 latency profiles incl. per-connection skew, 4 high-water marks, timer tie shuffling) on the real full stack; at every settle point every client's mirror and a reference mirror fed with the same messages are compared with the driver's state read through its public attributes, including presence and bit-exactness of BLOB payloads.",
            "Fault-free network; serialised messages stay below the 2048-character control threshold; number texts are compared with the library's own rendering; five known findings (K01, K02, K04-K06: state and payload of BLOB vectors across the two connections / the enableBLOB race / re-definition by getProperties) are suppressed by narrow signatures.",
            "deterministic simulation of the full client/server stack with seeded network schedules; truth-vs-mirror comparison at quiescence"),
    "C06": ("exploration", "Seeded search over multi-device deployments x write episodes (settle, snapshot of every element of every device, one client assigns a non-empty element subset of one writable property through the client API and submits, settle, snapshot) x values of each element's domain (text over XML-representable characters, both switch states, byte strings incl. empty, plain and sexagesimal numbers incl. negative) x 7 fragmentation modes x 5 latency profiles; unaddressed elements must be unchanged except rule-forced switch flips predicted by an independent rule model, addressed ones must hold the submitted value (numbers within half the format's resolution under INDI conventions), and the client's own view must show the driver's values afterwards.",
            "Only rw/wo properties, numbers in the format's own shape, BLOB payloads small enough for the server-side 2048-character threshold (big uploads are C08).",
            "deterministic simulation of isolated write episodes through the real client API, wire, framing, router and driver with before/after truth snapshots"),
    "C07": ("exploration", "Seeded search over generated deployments x driver-state histories (values, states, vector/group/element enable flips, BLOBs set) with getProperties requests sent by a real client over the fragmented simulated wire, for every (device, name) class in {existing, other, unknown, absent} x {enabled, disabled, unknown, absent}; the definitions each driver hands to the router after the request (router tap) must be exactly those predicted from the driver's public state, each with exactly the enabled elements, current values and the property's metadata; a re-parse monitor serialises, parses back and structurally compares every message any driver emits in the run.",
            "Requests are judged at quiescence; number texts are compared with the library's own rendering; delProperty replies are allowed.",
            "deterministic simulation: requests over the simulated wire at random points of histories, router tap vs driver truth, re-parse monitor"),
    "C09": ("exploration", "Seeded search over switch vectors (3 rules x 1..5 switches x arbitrary, possibly rule-violating, initial configuration) operated by several actors: real clients writing one switch over the simulated wire, a raw peer writing several switches per message (duplicates, contradictory pairs), driver-side value=, bool_value=, set_value(), selected_value=, selected_values=; pre->post rule implications on driver state for every driver-side operation, agreement with an independent rule model for single assignments, the rule on every published setSwitchVector (router tap) relative to the state before the operation, the rule on every client view after every delivered message, and final agreement of every client view with the driver. Distinct (rule, n, pre-state, operation, target) transitions are counted.",
            "Pre->post implications only; the first of two Ons in one multi-switch OneOfMany write need not stay On; operations interleave at message granularity.",
            "deterministic simulation with several concurrent writers; rule invariant on driver state, router tap and client views"),
    "C12": ("fault_enumeration", "A catalogue of 21 hostile-but-well-formed client message classes (unknown device/property/element, vector kind mismatch, values the parser accepts but the element cannot convert, values the parser rejects, empty values, wrong / non-numeric / numeric-looking (inf, 1e999, 3.5) / missing BLOB size, empty BLOB with a wrong size, bad base64, integers too large to render, no children, duplicate children, mixed valid+invalid children, device-kind messages from a client, enableBLOB for unknown device or from an unregistered sender, unregistered tags, odd getProperties) is enumerated round-robin x 5 target vector kinds x transport {real TCP handler, real TTY handler on the simulated thread pool, direct router call} and injected at a seeded position of a seeded session of valid traffic; afterwards: nothing escaped, only validly named elements changed (to the valid value), the sending connection is still registered/open and answers a valid getProperties, a valid write is applied, and a driver-side update reaches both the sender and an observing client, whose view must still match the device.",
            "One hostile message per run in the quick tier (sequences in thorough); both readings of 'ignored as far as it cannot be applied' pass.",
            "deterministic simulation with message-level fault injection enumerated from a catalogue at every session position"),
    "C18": ("fault_enumeration", "Eight fault kinds {EOF, reset, EOF inside a message, junk then EOF, exception in a driver Write handler while the victim's message is handled, silent peer death noticed on the next write, TTY stdin EOF, handler exception on the TTY channel} are enumerated round-robin and injected at every step index (script gaps in virtual time or in exact numbers of loop iterations) of seeded session scripts (2-4 raw TCP connections, optionally a library client and the TTY channel; handshakes, enableBLOB, writes, device text/BLOB updates) on the real TCP and TTY handlers; afterwards: the dead handler is in none of Router.clients, Router.blob_routing, ConnectionHandler.connections and its transport is closed, the router hands it nothing after unregistering it, every surviving connection received every device update exactly once (by unique emission stamp, respecting the BLOB policy in force at emission), the TCP server and (for TCP-side faults) the TTY handler still run, and a reconnecting peer gets default routing (no BLOB until it asks, then one).",
            "Messages in flight to/from the dying connection may be lost; a silent death is only required to be cleaned up at quiescence after the next device message.",
            "deterministic simulation with connection-level fault injection enumerated over fault kind x step index"),
    "C19": ("exploration", "Seeded search over bursts of 1..5 updates routed in one loop iteration or across iterations to 1-3 real TCP handlers (transport high-water mark 0/1/64/64Ki so that drain() blocks and its completion order is seeded), to the real TTY handler on a simulated pool of 2..6 workers whose job effect and completion instants are seeded, and from the real client-side connection handler to a stub server; optionally one connection stalled for ever; the instant of a burst is either a virtual-time gap or an exact number of loop iterations after the previous one (so it can fall between a drain completing, the lock being released and the next sender resuming). Each connection's output must split into complete elements that equal the routed sequence (a prefix for the stalled one); routing a burst must not advance virtual time; all other connections must be complete at quiescence.",
            "asyncio's FIFO ready queue is kept; pool jobs on different workers are free to take effect in either order (superset of a real pool).",
            "deterministic simulation of drain/pool completion orders with per-connection output vs routed order"),
    "C08": ("exploration", "Payload lengths are enumerated from the run index (0..96, windows around every length whose message crosses a multiple of 1024 bytes and the 2048-character threshold, 3000/4Ki/10K/64Ki; thorough: every length 0..3200, 64Ki, 1Mi) x content {random over all byte values, zeros, 0xFF} x formats (incl. empty and non-ASCII) x receivers {library client with Only on its BLOB connection, the same additionally Also on control, raw peers with policy unset/Never/Also/Only} x direction {download, upload through the client API, raw upload} x payloads installed silently (reset_value) and re-published by a state change or a vector/group re-enable x partial-BLOB faults (BLOB connection reset inside a payload; half an upload left pending, then closed) x read fragmentation {fixed:1024, fixed:1, fixed:7, random, whole, coalesce}; byte/format/size-exact comparison at every enabled receiver, no setBLOBVector at non-enabled ones, follow-up control and BLOB traffic must arrive on every live connection, step watchdog on the framing loops.",
            "Policies are settled before the measured update (INDI enableBLOB race not demanded); uploads longer than the server-side threshold are known finding K03.",
            "deterministic simulation with a payload-length sweep, stream fragmentation and partial-transfer faults; byte-exact oracle and liveness watchdogs"),
    "C14": ("exploration", "Seeded search over handler configurations attached through the real @on decorator (0-2 Write and Change handlers per element, plain or coroutine, vetoing or not, shared between two elements; 0-2 Read handlers, plain or coroutine) on text, number and switch (AnyOfMany, OneOfMany) elements, with one vector possibly disabled, x operation sequences (client writes of one or two elements over the simulated wire, set_value(), direct assignment, changing and unchanged values, attribute reads and getProperties); a global trace of handler entries (with the element value at entry) and router publications is checked per operation: Write handlers exactly once with the requested value (none for assignments), plain ones before the value changes and coroutine ones after publication, veto => nothing changed/published/no Change, otherwise exactly one update carrying the value iff the vector is enabled, Change exactly once with (old, new) iff changed and after publication, plain Read handlers before the value is returned or published.",
            "Elements with Read handlers are only read; multi-element writes get the weaker per-element counts.",
            "deterministic simulation with a global handler/publication trace checked against the event contract"),
    "C15": ("exploration", "Seeded search over streams of 1..40 def/set/del/ping/getProperties messages over 2 devices x 3 properties x 3 elements (redefinition with the same or another kind, partial updates, kind mismatches, unknown targets, empty and absent BLOB payloads, nameless delProperty) in random foreign spellings, delivered by a stub server over the fragmented simulated network to the real two-connection client (variant: setBLOBVector on the BLOB connection) or in-process to a SnoopingClient; after every applied message the client's public view is compared with an independent reference interpreter; at the end the client must have applied exactly what was sent, its receive tasks must be alive and a sentinel definition must be reflected. Awkward streams (wrong declared BLOB size, bad base64) are judged for survival only.",
            "The stub server never duplicates traffic on both connections; empty text == absent text == empty BLOB.",
            "deterministic simulation of a foreign server with per-message refinement check against a reference client model"),
    "C16": ("exploration", "Streams as in C15 with callback operations at quiescence between deliveries: onevent with every combination of device/vector/element filter (absent, matching, non-matching) and event type, plain / coroutine / raising callbacks (bound methods), rmonevent by uuid, by criteria and by an equal-but-not-identical callback, and pending waitforevent calls sitting among the callbacks. Each callback's log must equal (as a multiset, ignoring permitted None->None heads) the events an independent reference interpreter derives for the messages applied while it was registered; plain callbacks must never be invoked after removal; per element object and per vector object the value/state events must form an unbroken chain starting at None and ending at the current value; a raising callback must not stop the client.",
            "A redefinition starts new chains; for coroutine callbacks invoked means dispatched; equal-byte BLOB replacements are not judged.",
            "deterministic simulation with callback registration/removal interleaved with deliveries; reference-derived expected events"),
    "C17": ("exploration", "On the virtual clock, 1-3 concurrent waits (condition {expect, initial, check} x event kind {value, state} x timeout {none, 0.5..4 s} x polling {off, (delay, interval)} x filters x start instant) face a timeline of matching and non-matching updates on a 0.25 s grid from 0 to 6 s, several possibly in one instant, injected directly or sent by a stub server through the simulated network (several messages in one read), with seeded tie-break of equal-time timers. Closed-form oracle: the wait returns exactly the first matching event (identified by its old/new pair) at its instant if that is before the timeout, otherwise raises at exactly start+timeout, otherwise stays pending; never both; getProperties is sent exactly at start+delay+k*interval before completion, with the waited device/property, and never afterwards; callbacks are back to the base count.",
            "Ties between an event and the timeout instant are excluded by the generator; a poll tick at the completion instant is accepted either way; events at the very instant a wait starts are treated as ambiguous.",
            "deterministic simulation on a virtual clock with a timing grid and closed-form expectations"),
    "C02": ("exploration", "Seeded search over (message sequence, spelling, receive world, threshold, stream partition), including exhaustive 1-, 2- and 3-cut sweeps of short streams (1-cut sweeps also through the network worlds) and messages padded to end exactly on a multiple of the transports' read size, through the real Buffer and the real server/client/TTY read loops on a simulated network and thread pool; delivered messages compared structurally with what was sent, promptness checked after every piece, step watchdog for termination. Sampling, not proof.",
            "Trusts the harness message grammar/spelling writer and the structural comparison; kernel TCP segmentation is modelled as arbitrary cuts (a superset).",
            "deterministic simulation (seeded stream-partition schedules on a virtual-time loop, fault-free) with structural reference comparison"),
    "C11": ("exploration", "Seeded search over valid traffic with injected wire faults (junk incl. imitating fragments, truncation at chosen and at every position, eight corruption operators, filler) x receive world x threshold {16,128,2048,None} x partition; oracles: step watchdog (termination), nothing raised, contiguous-substring genuineness of every delivered message, retained length <= threshold after every call, promptness around non-imitating junk, resynchronisation after damage once the threshold is exceeded.",
            "Trusts the junk classifier (imitating = contributes '<'+registered tag) and ElementTree as the reference parser of substrings; resync is not demanded with the threshold disabled.",
            "deterministic simulation with stream fault injection (junk/truncate/corrupt) and a sys.monitoring step watchdog"),
    "C04": ("exploration", "Seeded histories of register/unregister/re-register/enableBLOB/send over every client-originated kind and device names {A,B,absent,unknown}; level 1 on the real Router with recording endpoints, a Proxy-like dual endpoint and real Drivers; level 2 through the real TCP server where registration is a connect and unregistration a close/reset at a seeded instant on a fragmented simulated network. Every Router.process_message call is compared with an independent RouterModel driven by the router's observed call order. Visited abstract router states and (state, operation) pairs are counted.",
            "Order among devices within one fan-out is not demanded; double registration is outside the property.",
            "deterministic simulation (connection churn + fragmented wire) with call-by-call refinement check against a reference router model"),
    "C05": ("exploration", "Same histories as C04 with device-originated kinds (def*/set* incl. setBLOBVector, delProperty, message, pingRequest, relayed getProperties) and the policy matrix {unset,Never,Also,Only} per (client, device); deliveries per router call compared with RouterModel, and at level 2 the bytes each raw peer received must be exactly (or, for a closed peer, a prefix of) what its handler was handed.",
            "Same as C04; in-flight sends to a connection that is being closed/reset may fail (ConnectionError) without alarm.",
            "deterministic simulation (connection churn, close/reset faults, fragmented wire) with refinement check against a reference router model"),
}

DESIGN_REF = "DESIGN.md §5 "


def main():
    checks = []
    for pid in sorted(CHECKS):
        level, text, note, tech = CHECKS[pid]
        checks.append({
            "property_id": pid,
            "quick_cmd": f"./check {pid} --tier quick",
            "thorough_cmd": f"./check {pid} --tier thorough",
            "evidence_file": f"evidence/{pid}.json",
            "replay_cmd_template": f"./check {pid} --replay {{path}}",
            "engine": "dst",
            "level_claimed": {"category": level, "text": text, "design_ref": DESIGN_REF + pid},
            "level_note": note,
            "technique": tech,
        })
    na = [{"property_id": k, "reason": v} for k, v in sorted(NA.items())]
    allp = [json.loads(l)["id"] for l in open(os.path.join(ROOT, "properties.jsonl"))]
    for pid in allp:
        if pid not in CHECKS and pid not in NA:
            na.append({"property_id": pid, "reason": "check under construction in this session (designed in DESIGN.md §5; will be claimed once it runs clean)"})
    man = {
        "version": 1,
        "setup_cmd": "/venv/bin/python -c \"import aiofiles, indi\" && ./check selftest",
        "hooks": {
            "guard": "INDIPY_VERIF",
            "enable": "none needed: every seam the simulator uses already exists (pluggable event loop, injected TTY streams, public Buffer attribute, module attribute indi.message.now); checks import /repo's working tree directly (VERIF_REPO overrides)",
            "baseline_off_cmd": "cd /repo && /venv/bin/python -m pytest -ra -q -p no:cacheprovider --timeout=900 --continue-on-collection-errors",
            "source_commits": [],
            "add_only": True,
        },
        "engines": [{"name": "dst", "path": "dst/", "serves_properties": sorted(CHECKS),
                     "kind_free_text": "deterministic simulation with fault injection: virtual-time asyncio loop (SimLoop), simulated network (SimNet), simulated thread pool and TTY files (SimPool), sys.monitoring step watchdog, seeded scenario generators, reference models, ddmin minimiser, replay files"}],
        "checks": checks,
        "not_applicable": sorted(na, key=lambda d: d["property_id"]),
        "notes": "See DESIGN.md. Exit codes of every check: 0 held, 1 violation (VIOLATION line + replay file), 2 harness trouble (never dressed as pass or violation). Genuine defects repaired in /repo are listed in known_findings.json (status fixed).",
    }
    json.dump(man, open(os.path.join(ROOT, "MANIFEST.json"), "w"), indent=1)
    print("MANIFEST.json written:", len(checks), "checks,", len(na), "not_applicable")


if __name__ == "__main__":
    main()
