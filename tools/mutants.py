"""Catalogue of realistic single-site changes used to measure the sensitivity of the checks.
Each entry: id, props (checks expected to catch it), file, old, new.  `old` must occur exactly once."""

M = []


def m(id, props, file, old, new, note=""):
    M.append({"id": id, "props": props, "file": file, "old": old, "new": new, "note": note})


B = "indi/transport/buffer.py"
m("buf_while_offbyone", [], B, "while end < len(data) - 1:", "while end < len(data) - 2:", "EQUIVALENT for the message grammar: two '>' are never closer than 4 chars at the end of a valid message")
m("buf_cleanup_first_lt", [], B, 'last_tag_pos = data.rfind("<")', 'last_tag_pos = data.find("<")', "performance-only change (retains more junk until a known tag shows up); not a property violation")
m("buf_slice_plus1", ["C02"], B, "self.data = self.data[end:]\n            self._cleanup_buffer()\n            callback(message)", "self.data = self.data[end + 1:]\n            self._cleanup_buffer()\n            callback(message)", "drops one char after each message")
m("buf_break_after_first", ["C02"], B, "            callback(message)\n", "            callback(message)\n            break\n", "process delivers at most one message per call")
m("buf_rfind_gt", ["C02"], B, 'end = data.find(">", end)', 'end = data.rfind(">", end)', "jumps to the last '>'")
m("buf_no_frontal_drop", ["C11"], B, "self.data = self.data[1:]\n        self._cleanup_buffer()", "self._cleanup_buffer()", "_cleanup_beginning drops nothing -> spins")
m("buf_threshold_ge_len", ["C11"], B, "and self.data_len > self.max_buffer_size_before_frontal_cleanup", "and self.data_len > self.max_buffer_size_before_frontal_cleanup + len(self.allowed_tags)", "threshold off by a constant")
m("buf_keep_junk_without_lt", ["C11"], B, '        # we can safely assume everything is junk and discard it\n        self.data = ""', '        # we can safely assume everything is junk and discard it\n        pass', "junk without '<' is retained")
m("buf_parseerror_narrowed", ["C11"], B, "except ET.ParseError:\n                is_correct_xml = False", "except ET.ParseError as e:\n                if 'junk after' in str(e):\n                    raise\n                is_correct_xml = False", "some parse errors escape")
m("buf_return_after_cleanup", ["C11"], B, "                    self._cleanup_beginning()\n                    continue", "                    self._cleanup_beginning()\n                    break", "only one resync step per call")
m("buf_d1_regression", ["C02", "C11"], B, "            if not message:\n                if (\n                    self.max_buffer_size_before_frontal_cleanup is not None\n                    and self.data_len > self.max_buffer_size_before_frontal_cleanup\n                ):\n                    self._cleanup_beginning()\n                    continue\n                break", "            if not message and self.max_buffer_size_before_frontal_cleanup is not None:\n                if self.data_len > self.max_buffer_size_before_frontal_cleanup:\n                    self._cleanup_beginning()\n                    continue\n                break", "the defect fixed by F01 comes back")
m("buf_strip_data", ["C02"], B, "        self.buffer.write(data)", "        self.buffer.write(data.lstrip(' '))", "leading blanks of every piece dropped (changes text split at a blank)")
m("buf_start_min_bug", ["C02", "C11"], B, "start = min(start, found_pos) if start is not None else found_pos", "start = max(start, found_pos) if start is not None else found_pos", "cleanup jumps to the LAST kind of known tag")

R = "indi/routing/router.py"
m("rt_no_sender_excl_dev", ["C04"], R, "if not device == sender and device.accepts(message.device):", "if device.accepts(message.device):", "message handed back to the sending device")
m("rt_no_accepts", ["C04"], R, "if not device == sender and device.accepts(message.device):", "if not device == sender:", "every device gets every client message")
m("rt_client_kinds_to_clients", ["C04"], R, "        if message.from_device:\n            for client in self.clients:", "        if message.from_device or message.from_client:\n            for client in self.clients:", "new*Vector / enableBLOB leak to other clients")
m("rt_getprops_not_relayed", ["C04"], "indi/message/get_properties.py", "    from_device = True\n", "    from_device = False\n", "getProperties no longer relayed to clients")
m("rt_isblob_wrong_class", ["C05"], R, "is_blob = isinstance(message, SetBLOBVector)", "is_blob = isinstance(message, EnableBLOB)", "F02 regression: BLOB test on the wrong class")
m("rt_also_as_only", ["C05", "C04"], R, "                            const.BLOBEnable.NEVER,\n                            const.BLOBEnable.ALSO,\n", "                            const.BLOBEnable.NEVER,\n", "Also receives only BLOBs")
m("rt_policy_per_client_only", ["C05"], R, "self.blob_routing[sender][message.device] = message.value", "self.blob_routing[sender] = {k: message.value for k in list(self.blob_routing[sender]) + [message.device]}", "a new enableBLOB overwrites the client's settings for all devices")
m("rt_unregister_keeps_policy", ["C18"], R, "        if client in self.blob_routing:\n            del self.blob_routing[client]", "        pass", "policy survives unregister/re-register")
m("rt_default_also", ["C05"], R, "DEFAULT_BLOB_POLICY = const.BLOBEnable.NEVER", "DEFAULT_BLOB_POLICY = const.BLOBEnable.ALSO", "default policy Also")
m("rt_no_sender_excl_cli", ["C05", "C04"], R, "                if not client == sender:\n", "                if True:\n", "device message handed back to the sending client-endpoint")
m("rt_register_resets_nothing", [], R, "        self.clients.append(client)\n        self.blob_routing[client] = {}", "        self.clients.append(client)\n        self.blob_routing.setdefault(client, {})", "equivalent unless unregister keeps policy (control)")

ST = "indi/transport/server/tcp.py"
TT = "indi/transport/server/tty.py"
CT = "indi/transport/client/tcp.py"
m("tcp_close_no_unregister", ["C18"], ST, "        self.writer.close()\n        if self.router:\n            self.router.unregister_client(self)", "        self.writer.close()", "closed connections stay registered with the router")
m("tcp_no_catch_all", ["C18"], ST, "            try:\n                await conn.wait_for_messages()\n            except:\n                logger.exception(\"Error in client handler loop\")\n", "            await conn.wait_for_messages()\n", "an error in the receive loop skips close()")
m("tcp_connections_not_removed", ["C18"], ST, "            conn.close()\n            cls.connections.remove(conn)", "            conn.close()", "class-level connection list grows")
m("tcp_eof_returns_before_close", ["C18"], ST, "            if not message:\n                logger.debug(f\"TCP: no data, breaking\")\n                break", "            if not message:\n                logger.debug(f\"TCP: no data, breaking\")\n                await asyncio.Event().wait()", "EOF leaves the handler parked for ever: never closed, never unregistered")
m("tcp_writer_not_closed", ["C18"], ST, "        self.writer.close()\n        if self.router:", "        if self.router:", "close() forgets to close the transport")
m("tcp_send_no_lock", ["C19"], ST, "        async with self.sender_lock:\n            logger.debug(\"TCP: sending data: %s\", data)\n            self.writer.write(data)\n            await self.writer.drain()", "        await self.writer.drain()\n        self.writer.write(data)", "drain before write without the lock: order depends on drain completion")
m("tcp_send_tasks_lifo", ["C19"], ST, "        asyncio.get_running_loop().create_task(self.send(data))", "        asyncio.get_running_loop().call_later(0.0001 * (1000 - len(data) % 7), lambda: asyncio.ensure_future(self.send(data)))", "send start delayed by a data-dependent amount")
m("tty_write_no_lock", ["C19"], TT, "        async with self.sender_lock:\n            await self.stdout.write(data)\n            await self.stdout.flush()", "        await self.stdout.write(data)\n        await self.stdout.flush()", "F17 regression: unserialised TTY writes")
m("cli_send_no_lock", ["C19"], CT, "        async with self.sender_lock:\n            logger.debug(\"TCP: sending data: %s\", data)\n            self.writer.write(data)\n            await self.writer.drain()", "        await self.writer.drain()\n        self.writer.write(data)", "client side: drain before write without the lock")
m("tty_close_no_unregister", ["C18"], TT, "    def close(self):\n        self.router.unregister_client(self)", "    def close(self):\n        pass", "TTY handler stays registered after stdin EOF")

DR = "indi/device/driver.py"
IV = "indi/device/properties/instance/vectors.py"
IE = "indi/device/properties/instance/elements.py"
IG = "indi/device/properties/instance/group.py"
m("el_value_setter_silent", ["C01", "C06"], IE, "        self._value = self.check_value(value)\n        self.device.send_message(self._vector.to_set_message())", "        self._value = self.check_value(value)", "assignments are no longer published")
m("vec_enabled_sends_only_set", ["C01"], IV, "        self._enabled = value\n        self.device.send_message(self.to_def_message())\n        self.device.send_message(self.to_set_message())", "        self._enabled = value\n        self.device.send_message(self.to_set_message())", "enabling/disabling a vector publishes no def/del")
m("group_enabled_skips_def", ["C01"], IG, "            self.device.send_message(v.to_def_message())\n", "", "enabling/disabling a group publishes no def/del")
m("set_message_omits_last", ["C01", "C06"], IV, "        elements = tuple(\n            e.to_set_message() for k, e in self._elements.items() if e.enabled\n        )\n        return self.set_message_class(", "        elements = tuple(\n            e.to_set_message() for k, e in self._elements.items() if e.enabled\n        )[:-1] or tuple(e.to_set_message() for k, e in self._elements.items() if e.enabled)\n        return self.set_message_class(", "updates omit the last element when there are several")
m("state_setter_silent_when_same", ["C01"], IV, "        self._state = checks.dictionary(value, const.State)\n        self.device.send_message(self.to_set_message())", "        old = self._state\n        self._state = checks.dictionary(value, const.State)\n        if old != 'Alert':\n            self.device.send_message(self.to_set_message())", "state changes away from Alert are not published")
m("inherit_direct_bases_only", ["C01"], DR, "                    **cast(Type[Driver], base)._all_group_definitions(),", "                    **cast(Type[Driver], base)._group_definitions,", "F06 regression")
m("new_msg_first_child_only", ["C06"], IV, "        for child in msg.children:\n            element = self._elements_by_name.get(child.name)", "        for child in msg.children[:1]:\n            element = self._elements_by_name.get(child.name)", "only the first child of a write is applied")
m("number_from_msg_no_conversion", ["C06"], IE, "        self.set_value(values.str_to_num(msg.value, self._definition.format))", "        self.set_value(float(msg.value.split(':')[0]))", "sexagesimal minutes/seconds dropped on write")
m("client_submit_keeps_new_value", ["C06"], "indi/client/vectors.py", "                ch.append(el.to_new_message())\n                el.reset_new_value()", "                ch.append(el.to_new_message())", "a later submit re-sends old assignments")
m("getprops_named_answers_all", ["C07"], DR, "                if msg.name in self._vectors:\n                    v = self._vectors[msg.name]\n                    self.send_message(v.to_def_message())", "                for k, v in self._vectors.items():\n                    self.send_message(v.to_def_message())", "a named request is answered with every definition")
m("getprops_unnamed_first_only", ["C07", "C01"], DR, "                for k, v in self._vectors.items():\n                    self.send_message(v.to_def_message())", "                for k, v in list(self._vectors.items())[:1]:\n                    self.send_message(v.to_def_message())", "an unnamed request is answered with the first definition only")
m("def_includes_disabled_elements", ["C07", "C01"], IV, "        elements = tuple(\n            e.to_def_message() for k, e in self._elements.items() if e.enabled\n        )", "        elements = tuple(\n            e.to_def_message() for k, e in self._elements.items()\n        )", "definitions list disabled elements")
m("light_def_loses_group", ["C07", "C01"], IV, "            group=self.group.name,\n            label=self._definition.label,\n            state=self._state,\n            timestamp=message.now(),", "            label=self._definition.label,\n            state=self._state,\n            timestamp=message.now(),", "defLightVector lacks the group")
m("defnumber_omits_step", ["C07"], IE, "            step=self._definition.step,\n        )", "            step=self._definition.step if self._definition.step else 0,\n        )", "control (equivalent rendering of step)")
m("rule_skips_atmostone", ["C09"], IV, "                const.SwitchRule.AT_MOST_ONE,\n                const.SwitchRule.ONE_OF_MANY,\n            ):\n                for k, el in self._elements.items():", "                const.SwitchRule.ONE_OF_MANY,\n            ):\n                for k, el in self._elements.items():", "AtMostOne not enforced")
m("rule_no_forced_back_on", ["C09"], IV, "                    new_value = const.SwitchState.ON\n", "                    pass\n", "last On of OneOfMany can be switched off")
m("rule_sender_not_excluded", ["C09"], IV, "                    if el != sender and el._value == const.SwitchState.ON:\n                        el._value = const.SwitchState.OFF", "                    if el._value == const.SwitchState.ON:\n                        el._value = const.SwitchState.OFF", "control: sender switched off then set on again (equivalent)")
m("drv_unknown_property_raises", ["C12"], DR, "            vector = self._vectors.get(msg.name)\n            if vector is None:", "            vector = self._vectors[msg.name]\n            if vector is None:", "F15 regression (unknown property)")
m("vec_unknown_element_raises", ["C12"], IV, "            element = self._elements_by_name.get(child.name)\n            if element is None:", "            element = self._elements_by_name[child.name]\n            if element is None:", "F15 regression (unknown element)")
m("vec_kind_mismatch_applied", ["C12"], IV, "        if new_message_class is None or not isinstance(msg, new_message_class):", "        if new_message_class is None:", "wrong-kind writes are applied")
m("vec_conversion_errors_escape", ["C12"], IV, "            except (ValueError, TypeError, AssertionError):", "            except (TypeError,):", "bad values raise out of the driver again")
m("router_enableblob_keyerror", ["C12"], R, "        if sender in self.blob_routing:\n            self.blob_routing[sender][message.device] = message.value", "        self.blob_routing[sender][message.device] = message.value", "F14 regression")
m("buf_invalid_element_blocks", ["C12", "C11"], B, "                    return None, end\n        return None, None", "                    pass\n        return None, None", "F16 regression: invalid complete element blocks the stream")
