"""Catalogue of realistic single-site changes used to measure the sensitivity of the checks.
Each entry: id, props (checks expected to catch it), file, old, new.  `old` must occur exactly once."""

M = []


def m(id, props, file, old, new, note=""):
    M.append({"id": id, "props": props, "file": file, "old": old, "new": new, "note": note})


B = "indi/transport/buffer.py"
m("buf_while_offbyone", [], B, "while end < len(data) - 1:", "while end < len(data) - 2:", "EQUIVALENT for the message grammar: two '>' are never closer than 4 chars at the end of a valid message")
m("buf_cleanup_first_lt", [], B, 'last_tag_pos = data.rfind("<")', 'last_tag_pos = data.find("<")', "performance-only change (retains more junk until a known tag shows up); not a property violation")
m("buf_slice_plus1", ["C02"], B, "self.data = self.data[end:]\n            self._cleanup_buffer()\n            callback(message)", "self.data = self.data[end + 1:]\n            self._cleanup_buffer()\n            callback(message)", "drops one char after each message")
m("buf_break_after_first", ["C02"], B, "            callback(message)\n", "            callback(message)\n            break\n", "process delivers at most one message per call")
m("buf_rfind_gt", ["C02"], B, 'end = data.find(">", end)', 'end = data.rfind(">", end)', "jumps to the last '>'")
m("buf_no_frontal_drop", ["C11"], B, "self.data = self.data[1:]\n        self._cleanup_buffer()", "self._cleanup_buffer()", "_cleanup_beginning drops nothing -> spins")
m("buf_threshold_ge_len", ["C11"], B, "and self.data_len > self.max_buffer_size_before_frontal_cleanup", "and self.data_len > self.max_buffer_size_before_frontal_cleanup + len(self.allowed_tags)", "threshold off by a constant")
m("buf_keep_junk_without_lt", ["C11"], B, '        # we can safely assume everything is junk and discard it\n        self.data = ""', '        # we can safely assume everything is junk and discard it\n        pass', "junk without '<' is retained")
m("buf_parseerror_narrowed", ["C11"], B, "except ET.ParseError:\n                is_correct_xml = False", "except ET.ParseError as e:\n                if 'junk after' in str(e):\n                    raise\n                is_correct_xml = False", "some parse errors escape")
m("buf_return_after_cleanup", ["C11"], B, "                    self._cleanup_beginning()\n                    continue", "                    self._cleanup_beginning()\n                    break", "only one resync step per call")
m("buf_d1_regression", ["C02", "C11"], B, "            if not message:\n                if (\n                    self.max_buffer_size_before_frontal_cleanup is not None\n                    and self.data_len > self.max_buffer_size_before_frontal_cleanup\n                ):\n                    self._cleanup_beginning()\n                    continue\n                break", "            if not message and self.max_buffer_size_before_frontal_cleanup is not None:\n                if self.data_len > self.max_buffer_size_before_frontal_cleanup:\n                    self._cleanup_beginning()\n                    continue\n                break", "the defect fixed by F01 comes back")
m("buf_strip_data", ["C02"], B, "        self.buffer.write(data)", "        self.buffer.write(data.lstrip(' '))", "leading blanks of every piece dropped (changes text split at a blank)")
m("buf_start_min_bug", ["C02", "C11"], B, "start = min(start, found_pos) if start is not None else found_pos", "start = max(start, found_pos) if start is not None else found_pos", "cleanup jumps to the LAST kind of known tag")

R = "indi/routing/router.py"
m("rt_no_sender_excl_dev", ["C04"], R, "if not device == sender and device.accepts(message.device):", "if device.accepts(message.device):", "message handed back to the sending device")
m("rt_no_accepts", ["C04"], R, "if not device == sender and device.accepts(message.device):", "if not device == sender:", "every device gets every client message")
m("rt_client_kinds_to_clients", ["C04"], R, "        if message.from_device:\n            for client in self.clients:", "        if message.from_device or message.from_client:\n            for client in self.clients:", "new*Vector / enableBLOB leak to other clients")
m("rt_getprops_not_relayed", ["C04"], "indi/message/get_properties.py", "    from_device = True\n", "    from_device = False\n", "getProperties no longer relayed to clients")
m("rt_isblob_wrong_class", ["C05"], R, "is_blob = isinstance(message, SetBLOBVector)", "is_blob = isinstance(message, EnableBLOB)", "F02 regression: BLOB test on the wrong class")
m("rt_also_as_only", ["C05", "C04"], R, "                            const.BLOBEnable.NEVER,\n                            const.BLOBEnable.ALSO,\n", "                            const.BLOBEnable.NEVER,\n", "Also receives only BLOBs")
m("rt_policy_per_client_only", ["C05"], R, "self.blob_routing[sender][message.device] = message.value", "self.blob_routing[sender] = {k: message.value for k in list(self.blob_routing[sender]) + [message.device]}", "a new enableBLOB overwrites the client's settings for all devices")
m("rt_unregister_keeps_policy", ["C18"], R, "        if client in self.blob_routing:\n            del self.blob_routing[client]", "        pass", "policy survives unregister/re-register")
m("rt_default_also", ["C05"], R, "DEFAULT_BLOB_POLICY = const.BLOBEnable.NEVER", "DEFAULT_BLOB_POLICY = const.BLOBEnable.ALSO", "default policy Also")
m("rt_no_sender_excl_cli", ["C05", "C04"], R, "                if not client == sender:\n", "                if True:\n", "device message handed back to the sending client-endpoint")
m("rt_register_resets_nothing", [], R, "        self.clients.append(client)\n        self.blob_routing[client] = {}", "        self.clients.append(client)\n        self.blob_routing.setdefault(client, {})", "equivalent unless unregister keeps policy (control)")
