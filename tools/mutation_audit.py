#!/venv/bin/python
"""Sensitivity audit: apply each catalogued mutant to a scratch copy of /repo's package (outside /repo and
/verif), point the checks at it through VERIF_REPO, record which check catches it, delete the copy.

usage: tools/mutation_audit.py [--only id,id] [--props C02,C11] [--runs N] [--tests] [--out audit/results.json]
"""
import argparse
import json
import os
import shutil
import subprocess
import sys
import tempfile
import time

ROOT = os.path.dirname(os.path.dirname(os.path.abspath(__file__)))
sys.path.insert(0, ROOT)
from tools.mutants import M  # noqa: E402


def make_copy(mut):
    d = tempfile.mkdtemp(prefix="indipy_mut_", dir=os.environ.get("VERIF_SCRATCH", "/tmp"))
    shutil.copytree("/repo/indi", os.path.join(d, "indi"))
    shutil.copytree("/repo/tests", os.path.join(d, "tests"))
    p = os.path.join(d, mut["file"])
    s = open(p).read()
    if s.count(mut["old"]) != 1:
        shutil.rmtree(d)
        print(f"SKIP mutant {mut['id']}: pattern occurs {s.count(mut['old'])} times in {mut['file']} (catalogue out of date)")
        return None
    open(p, "w").write(s.replace(mut["old"], mut["new"]))
    return d


def main():
    ap = argparse.ArgumentParser()
    ap.add_argument("--only")
    ap.add_argument("--props")
    ap.add_argument("--runs", type=int, default=None)
    ap.add_argument("--tests", action="store_true", help="also run the repository's test suite on each mutant")
    ap.add_argument("--resume", action="store_true", help="skip mutants already present in the output file")
    ap.add_argument("--out", default=os.path.join(ROOT, "audit", "results.json"))
    args = ap.parse_args()
    only = set(args.only.split(",")) if args.only else None
    props = set(args.props.split(",")) if args.props else None
    results = {}
    if os.path.exists(args.out):
        results = json.load(open(args.out))
    for mut in M:
        if only and mut["id"] not in only:
            continue
        targets = [p for p in mut["props"] if not props or p in props]
        if not targets:
            continue
        if args.resume and mut["id"] in results and all(t in results[mut["id"]].get("checks", {}) for t in targets):
            continue
        d = make_copy(mut)
        if d is None:
            results.setdefault(mut["id"], {"note": mut["note"], "file": mut["file"], "checks": {}})["pattern_missing"] = True
            continue
        try:
            rec = results.setdefault(mut["id"], {"note": mut["note"], "file": mut["file"], "checks": {}})
            if args.tests:
                t0 = time.time()
                env = dict(os.environ, PYTHONPATH=d)
                p = subprocess.run(["/venv/bin/python", "-m", "pytest", "-q", "-p", "no:cacheprovider", "-x", "-n", "8", "tests"],
                                   cwd=d, env=env, capture_output=True, text=True)
                rec["tests_pass"] = (p.returncode == 0)
                rec["tests_tail"] = p.stdout.strip().splitlines()[-1:] if p.stdout else []
                print(f"  {mut['id']}: test suite {'passes' if rec['tests_pass'] else 'FAILS'} ({time.time()-t0:.0f}s)")
            for pid in targets:
                t0 = time.time()
                env = dict(os.environ, VERIF_REPO=d, VERIF_MIN_BUDGET_S="10")
                cmd = [os.path.join(ROOT, "check"), pid, "--no-evidence"]
                if args.runs:
                    cmd += ["--runs", str(args.runs)]
                p = subprocess.run(cmd, env=env, capture_output=True, text=True, cwd=ROOT)
                lines = [l for l in p.stdout.splitlines() if l.startswith(("VIOLATION", "violation clause", "HARNESS"))]
                rec["checks"][pid] = {"exit": p.returncode, "caught": p.returncode == 1, "wall_s": round(time.time() - t0, 1),
                                      "report": lines[:4]}
                print(f"{mut['id']:28s} {pid}: exit={p.returncode} {'CAUGHT' if p.returncode == 1 else 'missed' if p.returncode == 0 else 'HARNESS'} "
                      f"({time.time()-t0:.0f}s) {lines[0][:110] if lines else ''}")
        finally:
            shutil.rmtree(d, ignore_errors=True)
        os.makedirs(os.path.dirname(args.out), exist_ok=True)
        json.dump(results, open(args.out, "w"), indent=1, sort_keys=True)


if __name__ == "__main__":
    main()
