#!/venv/bin/python
"""Evaluate an independently written breaking change against the checks.

usage: tools/seed_eval.py <dir with patch.diff demo.py meta.json> [--checks C01,C07] [--tests] [--keep-as ID]

Steps (all on a scratch copy of /repo's package outside /repo and /verif, deleted afterwards):
  1. demo.py passes on the original tree and fails with the patch applied;
  2. (--tests) the repository's test suite passes with the patch applied;
  3. each requested check (default: the property named in meta.json) is run in its quick tier with
     VERIF_REPO pointing at the patched copy; exit 1 + VIOLATION = caught.
With --keep-as the directory is copied to /verif/seeded/<ID>/ and meta.json is extended with what was run.
"""
import argparse
import json
import os
import shutil
import subprocess
import sys
import tempfile
import time

ROOT = os.path.dirname(os.path.dirname(os.path.abspath(__file__)))
PY = "/venv/bin/python"


def run(cmd, **kw):
    return subprocess.run(cmd, capture_output=True, text=True, **kw)


def main():
    ap = argparse.ArgumentParser()
    ap.add_argument("dir")
    ap.add_argument("--checks")
    ap.add_argument("--tests", action="store_true")
    ap.add_argument("--keep-as")
    ap.add_argument("--tier", default="quick")
    ap.add_argument("--seeds", default="20261002")
    args = ap.parse_args()
    d = os.path.abspath(args.dir)
    meta = json.load(open(os.path.join(d, "meta.json")))
    checks = args.checks.split(",") if args.checks else [meta["property"]]
    scratch = tempfile.mkdtemp(prefix="indipy_seed_")
    report = {"demo_original": None, "demo_patched": None, "tests_patched": None, "checks": {}}
    try:
        orig = os.path.join(scratch, "orig")
        pat = os.path.join(scratch, "patched")
        for t in (orig, pat):
            os.makedirs(t)
            shutil.copytree("/repo/indi", os.path.join(t, "indi"))
            shutil.copytree("/repo/tests", os.path.join(t, "tests"))
        p = run(["patch", "-p1", "-i", os.path.join(d, "patch.diff")], cwd=pat)
        if p.returncode != 0:
            print("PATCH DOES NOT APPLY:\n" + p.stdout + p.stderr)
            return 2
        for name, tree in (("demo_original", orig), ("demo_patched", pat)):
            r = run([PY, os.path.join(d, "demo.py")], env=dict(os.environ, PYTHONPATH=tree), cwd=tree, timeout=300)
            report[name] = r.returncode
            print(f"{name}: exit {r.returncode}  {(r.stdout + r.stderr).strip().splitlines()[-1:] }")
        if args.tests:
            r = run([PY, "-m", "pytest", "-q", "-p", "no:cacheprovider", "-n", "8", "tests"], env=dict(os.environ, PYTHONPATH=pat), cwd=pat)
            report["tests_patched"] = r.returncode
            print(f"test suite with patch: exit {r.returncode} {r.stdout.strip().splitlines()[-1:]}")
        for pid in checks:
            for seed in args.seeds.split(","):
                t0 = time.time()
                r = run([os.path.join(ROOT, "check"), pid, "--tier", args.tier, "--no-evidence", "--seed", seed],
                        env=dict(os.environ, VERIF_REPO=pat, VERIF_MIN_BUDGET_S="20"), cwd=ROOT)
                lines = [l for l in r.stdout.splitlines() if l.startswith(("VIOLATION", "violation clause", "  detail", "HARNESS", "violation clauses"))]
                report["checks"][f"{pid}@{seed}"] = {"exit": r.returncode, "wall_s": round(time.time() - t0, 1), "report": lines[:6]}
                print(f"check {pid} seed {seed}: exit {r.returncode} ({time.time()-t0:.0f}s) {'CAUGHT' if r.returncode == 1 else 'MISSED' if r.returncode == 0 else 'HARNESS'}")
                for l in lines[:4]:
                    print("    " + l[:260])
    finally:
        shutil.rmtree(scratch, ignore_errors=True)
    if args.keep_as:
        dst = os.path.join(ROOT, "seeded", args.keep_as)
        os.makedirs(dst, exist_ok=True)
        for f in ("patch.diff", "demo.py"):
            shutil.copy(os.path.join(d, f), os.path.join(dst, f))
        meta["evaluation"] = report
        meta["ran"] = [f"tools/seed_eval.py {args.dir} --checks {','.join(checks)}" + (" --tests" if args.tests else "")]
        json.dump(meta, open(os.path.join(dst, "meta.json"), "w"), indent=1)
    return 0


if __name__ == "__main__":
    sys.exit(main())
