#!/usr/bin/env python3
"""Writes /verif/seeded/INDEX.md from the meta.json files."""
import json
import os

ROOT = os.path.dirname(os.path.dirname(os.path.abspath(__file__)))
d = os.path.join(ROOT, "seeded")
rows = []
for name in sorted(os.listdir(d)):
    mp = os.path.join(d, name, "meta.json")
    if not os.path.exists(mp):
        continue
    m = json.load(open(mp))
    ev = m.get("evaluation", {})
    caught = [k for k, v in ev.get("checks", {}).items() if v.get("exit") == 1]
    missed = [k for k, v in ev.get("checks", {}).items() if v.get("exit") == 0]
    clauses = []
    for k, v in ev.get("checks", {}).items():
        for l in v.get("report", []):
            if l.startswith("violation clauses"):
                clauses.append(l.split(": ", 1)[1])
    rows.append((name, m.get("property"), m.get("summary", ""), m.get("needs", ""), ev.get("demo_original"), ev.get("demo_patched"),
                 ev.get("tests_patched"), caught, missed, clauses, m.get("note", "")))
with open(os.path.join(d, "INDEX.md"), "w") as f:
    f.write("# Independently written breaking changes\n\n"
            "Each directory holds `patch.diff` (against /repo at the time), `demo.py` (passes on the original tree, fails with the patch) and "
            "`meta.json` (what it breaks, what it needs to manifest, what was run). Written by sub-agents that saw only the property text "
            "and a scratch worktree. Evaluated with `tools/seed_eval.py` on a scratch copy (never committed to /repo).\n\n")
    f.write("| id | property | change | needs | demo orig/patched | tests with patch | caught by | missed by | clauses | note |\n|---|---|---|---|---|---|---|---|---|---|\n")
    for r in rows:
        f.write(f"| {r[0]} | {r[1]} | {r[2]} | {r[3]} | {r[4]}/{r[5]} | {'pass' if r[6] == 0 else r[6]} | {', '.join(r[7])} | {', '.join(r[8])} | {'; '.join(r[9])[:200]} | {r[10]} |\n")
print("INDEX.md:", len(rows), "entries")
